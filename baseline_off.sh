#!/bin/bash
# Runs the repository's pinned baseline test command with the verif guard OFF
# (no -tags verif), exactly as recorded in /root/.vp/BASELINE.json.
set -u
cd /repo
for m in $(cat /w/out/gomods.txt); do
  MF=$(cd /repo/$m && . /w/out/goenv.sh && gomodflag)
  (cd /repo/$m && go test $MF -json -vet=off -count=1 -timeout 25m ./...)
done

#!/bin/bash
# multi-seed sweep of the quick tier: every registered check, several master seeds
# usage: sweep.sh <first-seed> <last-seed> [props...]
a=$1; b=$2; shift 2
props=${*:-C01 C02 C03 C04 C05 C09 C10 C12 C14 C17 C18 C19}
for s in $(seq $a $b); do for p in $props; do
  out=$(VERIF_SEED=$s ./check $p quick 2>&1); rc=$?
  echo "SWEEP seed=$s prop=$p rc=$rc"
  if [ $rc -ne 0 ]; then echo "$out" | grep -E "VIOLATION|oracle=|HARNESS|^  " | head -12 | cut -c1-500; mkdir -p sweep-replays/$s-$p; cp -r replays/$p/. sweep-replays/$s-$p/ 2>/dev/null; fi
done; done

#!/usr/bin/env python3
"""Regenerates /verif/MANIFEST.json from checkcfg.py and the texts below."""
import json, os, subprocess, sys
sys.path.insert(0, os.path.dirname(os.path.abspath(__file__)))
from checkcfg import CHECKS

NA = {
 "C06": "script verification is a pure function of (scripts, witness, tx, index, amount, flags): no schedule, clock, I/O fault, crash point or operation history for a simulator to control",
 "C07": "signature digests and signers are pure functions of their inputs (cache/no-cache equality is still an input-only statement); nothing to schedule, fault or crash",
 "C08": "wire encode/decode is a pure codec bijection over inputs and protocol versions; it runs as real code under the C18/C19 hostile streams but that does not decide its every-input clauses",
 "C11": "secp256k1 verification/signing correctness is mathematics over inputs; MuSig2 signer sets are data in this API, not concurrent parties",
 "C13": "merkle/weight/sigop/lock-time/sequence-lock primitives are total functions of their arguments; exercised in context by C01 but not decided",
 "C15": "on-disk record codecs are pure encode/decode functions; read back through flush+reopen in C03/C04, which does not decide the every-input clauses",
 "C16": "address/key/script-template encodings are pure functions of payload and network",
 "C20": "GCS, bloom and merkle-block construction/matching are pure functions of their inputs",
}

TEXT = {
 "C01": dict(
  technique="deterministic simulation: seeded delivery schedules of a generated block tree (valid / one-rule mutants / at-limit variants) into a real node, verdict oracle from a validity-by-construction reference world",
  level="Seeded search over worlds (network parameter sets, block trees, ~90 single-rule mutations with their at-limit / before-activation twins: sanity, header context, BIP34/65/66/68/112/113/141/341 activation edges, lock times, relative height and time locks, sigop and size limits, BIP30, witness commitments) and delivery schedules (in order, child-before-parent, duplicates, too-early timestamps, branches that overtake only with their last block, restarts, cache sizes, sig/hash cache on/off, skewed clock; one run in three on a difficulty-adjusting or BIP9-voting network). Every delivered block's verdict and the node's resulting state are compared with the reference world after every event; thousands of distinct runs per minute. Sampling, not proof.",
  note="Trusts the reference world's validity-by-construction (own UTXO fold, merkle, witness commitment, BIP34, BIP9 model, difficulty arithmetic); script semantics are not re-implemented; only accept/reject and error kind (rule vs internal) are compared, never error codes.",
  ref="DESIGN.md §5 C01"),
 "C02": dict(
  technique="deterministic simulation: seeded delivery/restart/invalidate schedules over forked block trees; chain-selection reference model and cross-view agreement checked at every quiescent point",
  level="After every event the active tip must carry the most work among fully valid accepted blocks (accepted set observed through HaveBlock/IsKnownOrphan and itself constrained), may only move to strictly more work, and every view (snapshot, height<->hash, membership, ChainTips, notification stream replayed on a stack) must agree. Seeded sampling of trees and orders.",
  note="Orphan retention is only required for under an hour of simulated time and fewer than 100 orphans; ties may resolve to any max-work candidate at the moment several appear at once; ChainTips 'invalid' is checked for soundness only (lazy validation).",
  ref="DESIGN.md §5 C02"),
 "C03": dict(
  technique="deterministic simulation: seeded connect/disconnect/reorg/flush/restart histories; UTXO set, spend journals and TotalTxns compared with an independent fold of the active chain",
  level="At seeded quiescent points every outpoint the world ever produced (any branch, valid or not) is looked up and compared (amount, script, height, coinbase flag) with the model fold of the active chain; spend journals of all main-chain blocks and TotalTxns are compared; the same comparison runs after clean and no-flush restarts and on fresh instances opened on clones of the database (persisted == in-memory) for cache sizes from 0 to 'never flush', on pruned and unpruned nodes.",
  note="Model fold is harness code; observer effect of FetchUtxoEntry on the cache is mitigated by also comparing on fresh instances after restarts.",
  ref="DESIGN.md §5 C03"),
 "C19": dict(
  technique="deterministic simulation: two BIP324 endpoints (real<->real, real<->independent reference) on a seeded adversarial byte stream; prefix/authentication oracles, byte-equal ciphertext across rekeys",
  level="Seeded search over roles, garbage lengths, decoys, packet sequences crossing rekey boundaries, delivery chunking and one adversarial fault per run; ciphertext compared byte for byte with an independent implementation written from the BIP; received plaintext sequence must be a prefix of what was sent and the first read consuming a tampered byte must fail.",
  note="Reference endpoint anchored by published BIP324 vectors; secp256k1/ellswift math is the repository's own. 15% of the runs are 'peerlink' runs: a real peer.Peer on the v2 transport against the reference node on a simulated connection (sent-equals-received both ways, torn socket writes, bit flips, hang-ups, v1 downgrade in both directions).",
  ref="DESIGN.md §5 C19"),
}

TEXT["C04"] = dict(
  technique="deterministic simulation with crash-point enumeration: a seeded block-delivery workload runs on an in-memory store with a commit log, then every prefix of its database commits is a crash point (plus crashes inside recovery); recovered state checked against the reference world",
  level="For each sampled workload (extensions, side chains, reorganisations, invalid blocks, flushes, restarts, every UTXO-cache size) every database-commit prefix is enumerated as a crash point: reopen must succeed, the recovered tip must have been announced as active with its activating commit among the survivors, the UTXO set and spend journals must equal the fold of that tip, acknowledged blocks must still be known and byte-identical, and re-delivering the world must converge to the uninterrupted run's result; a seeded 40% crash again inside the recovery's own commits.  One crash run in three uses configuration B instead: real ffldb + goleveldb on a simulated disk, the crash at a seeded I/O call inside a delivery, process-crash and power-loss images (lost, reordered and torn unsynced writes).  One run in five is a pruned node.",
  note="Crash granularity is the database commit on the memdb stub (atomic, prefix-durable store assumed - that assumption is property C05's subject, decided by storesim on real ffldb). Known finding KF-C04-1 (stored-but-unconnected best block not activated after reopen) is reported as KNOWN-FINDING and additionally checked to converge after one more block.",
  ref="DESIGN.md §5 C04")

TEXT["C09"] = dict(
  technique="deterministic simulation: generated header/block histories on synthetic difficulty parameter sets under a seeded advancing and skewed clock; required bits, MTP, timestamp rules, BIP94, min-difficulty, work-based selection and subsidy compared with an independent arithmetic model",
  level="History x configuration x clock facet of C09: every header/block accept/reject, CalcNextRequiredDifficulty for several candidate timestamps after every reached tip (incl. retarget boundaries, clamps, min-difficulty walk-back, BIP94 first-block target, no-retarget), BestSnapshot.MedianTime, CheckProofOfWork, CompactToBig/BigToCompact/CalcWork/HashToBig on every value occurring, CalcBlockSubsidy on every reached height and at halvings 63/64/65/100, and chain selection by cumulative work computed independently (shorter-but-heavier branches).",
  note="The every-isolated-compact-value / every-256-bit-target clauses are pure arithmetic over inputs and are not decided (only values occurring in generated histories and mutated headers are reached); mining cost bounds pow limits to 2^249..2^255.",
  ref="DESIGN.md §5 C09")
TEXT["C17"] = dict(
  technique="deterministic simulation: seeded interleavings of header and block deliveries of one generated tree into a real node; block-index, locator and inventory queries compared with naive parent-link walks on the reference tree",
  level="After seeded events: LocateBlocks/LocateHeaders (empty, genuine, side-chain, unknown, out-of-order locators; every stop-hash class; max), LatestBlockLocator, BlockLocatorFromHash (any branch, unknown), HeightRange, HeightToHashRange, IntervalBlockHashes (side-chain ends, unknown ends, out-of-domain arguments), BestHeader, HeaderHashByHeight, HeaderHeightByHash, IsValidHeader, BestChainHeaderForkHeight equal the naive-walk model; header verdicts (orphan headers refused, header-rule violations refused, valid headers on valid chains accepted) are judged; the final state after headers-then-blocks satisfies the same most-work-valid-chain oracle as blocks-only.",
  note="Model follows the documented contracts (DESIGN §5 C17); best-header is judged for headers accepted through header delivery within one node instance (a restart re-bases it on the chain tip).",
  ref="DESIGN.md §5 C17")

TEXT["C14"] = dict(
  technique="deterministic simulation: generated vote/timestamp histories on forked trees under seeded BIP9 deployment definitions; deployment state, next block version and rule activation compared with a cache-less BIP9 state machine at the tip and at arbitrary blocks in seeded query order, across restarts",
  level="For seeded deployment definitions (window, threshold, start/timeout by MTP, speedy mode, min activation height, always-active height) and block trees whose windows end at threshold-1/threshold with different histories on sibling branches, ThresholdState / IsDeploymentActive / CalcNextBlockVersion at the tip and (through a read-only tagged hook) the state after arbitrary blocks of any branch, in seeded order so that the cache is shared and polluted, equal an independent model evaluated from genesis without cache; terminal states are absorbing; CSV-gated mutants flip verdict exactly at activation.",
  note="Only well-formed definitions (start < timeout); the always-active height is an explicit override and is exempt from 'Failed is never left'; the hook VerifDeploymentStateAt only exposes the unexported per-node query.",
  ref="DESIGN.md §5 C14")

TEXT["C10"] = dict(
  technique="deterministic simulation: seeded histories of transaction submissions, replacements, orphans, removals, block connects/disconnects (through the real netsync handler), restarts and clock moves against a real mempool; whole-pool invariants and replacement accounting recomputed from the harness's own amounts after every step",
  level="After every step: no outpoint spent twice; spend index == pool; every input unspent in the chain or created by a pooled transaction; all membership views agree; orphan bounds; a rejected submission and CheckMempoolAcceptance leave membership unchanged; accepted replacements evict exactly conflicts + descendants (<=100), pay >= evicted fees + relay fee for their size at a strictly higher fee rate than each evicted transaction; and - while height and MTP have not moved backwards since admission - the pooled set in dependency order, assembled by the harness's own block builder, passes CheckConnectBlockTemplate.",
  note="Which orphan is evicted/promoted and policy accept/reject decisions are observed, not predicted; concurrent callers (data races) are not yet covered by a registered check.",
  ref="DESIGN.md §5 C10")
TEXT["C12"] = dict(
  technique="deterministic simulation: block templates generated by the real generator on seeded reachable pool states, tips and mining policies; every clause recomputed independently, then time/extra nonce updated at a later simulated clock value, the block solved and fed back through ProcessBlock",
  level="For each template: generation succeeds when its precondition holds; parents precede children; fees and sigop costs per transaction equal values recomputed from the harness's own amounts and script shapes; coinbase pays exactly subsidy + fees; witness commitment present iff needed and equal to an independent computation; merkle root, required bits and version equal the model's; weight/sigop limits respected; after UpdateBlockTime/UpdateExtraNonce and solving, ProcessBlock accepts the block onto the tip it was built for and the pool/UTXO invariants still hold.",
  note="Sigop cost model covers the script shapes the world generates; megabyte-scale limit cases are not generated. A quarter of the runs are on retargeting networks (BIP94, minimum-difficulty rule) with the adjusted clock stepped back by skewed peers before UpdateBlockTime; time and bits of the updated template are judged.",
  ref="DESIGN.md §5 C12")

TEXT["C18"] = dict(
  technique="deterministic simulation: one real peer.Peer on a harness-owned connection against a scripted remote; seeded byte chunking, simulated timers, caller goroutines and guarded yield points decide the interleaving; handshake model, FIFO/exactly-once completion, goroutine-leak and race-detector oracles",
  level="Seeded search over both directions, local configurations, remote scripts (valid, out of order, duplicated, unknown, malformed, wrong magic, self connection, obsolete version), chunking down to 1 byte, delays straddling the negotiate/idle/stall/ping timers, stalled remotes, slow listeners, and 1-6 application goroutines queueing messages/inventory and disconnecting before, during and after the handshake; a goroutine can be parked at one of 7 guarded yield sites inside the peer across later events. Oracles O1-O7 of DESIGN §5 C18; binary built with -race.",
  note="Event-stepped and yield modes are replayable (60-seed x 6-process determinism self-test per run); burst steps are not and are excluded from replay claims. 'Queued before the disconnect' is judged by logical stamps of the calling goroutines. The BIP324 transport inside peer is C19's subject. Reject messages travel in both directions and a 'crossfire' step releases a queued send at the moment inbound bytes arrive (race detector only; not part of the replay claim).",
  ref="DESIGN.md §5 C18")

TEXT["C05"] = dict(
  technique="deterministic simulation with fault enumeration: real ffldb + real goleveldb on a simulated disk (every I/O call an indexed fault point: error, short write, crash with process-crash or power-loss semantics), refinement against an in-memory reference database, porcupine for reader/writer isolation",
  level="Seeded operation sequences (buckets, keys, cursors, blocks, regions, pruning, commits/rollbacks, reopen, cache/file-size knobs) are executed in lockstep with the reference model modeldb (fault-free refinement); for each sampled workload every I/O call index is made to fail in turn (complete enumeration for workloads up to 60 I/O calls in quick, 400 in thorough) and the store must be in the before- or after-state of the interrupted transaction; crashes at every enumerated I/O point (process crash and power loss, 20% with a second crash during reopen) must reopen to a prefix of the committed transactions no shorter than the last completed flush, byte-identical blocks; reader/writer interleavings (snapshots held across later commits and flushes, 2..60 keys, every access path with strict iteration order) are checked with porcupine; several writer goroutines contend for the write lock and must be serialised (no stale snapshot, no lost update, no bucket-id collision).",
  note="goleveldb runs in a deterministic configuration (L0 triggers raised, seek compaction off, 64 KiB write buffer) so that all I/O happens on the driver goroutine and fault indices replay; its own background-compaction configuration is not explored. Four remaining known findings (F-C05-1,3,7,8) are reported as KNOWN-FINDING. In 30% of the executions an injected I/O error is followed by a crash some I/O calls later; a commit that returned an error must leave the running store unchanged.",
  ref="DESIGN.md §5 C05")

READY = ["C01", "C02", "C03", "C04", "C05", "C09", "C10", "C12", "C14", "C17", "C18", "C19"]

def main():
    verif = os.path.dirname(os.path.abspath(__file__))
    checks = []
    engines = {}
    for prop in sorted(CHECKS):
        if prop not in READY or prop not in TEXT:
            continue
        cfg = CHECKS[prop]
        t = TEXT[prop]
        checks.append({
            "property_id": prop,
            "quick_cmd": "./check %s quick" % prop,
            "thorough_cmd": "./check %s thorough" % prop,
            "evidence_file": "/verif/evidence/%s.json" % prop,
            "replay_cmd_template": "./check %s --replay {path}" % prop,
            "engine": cfg["engine"],
            "level_claimed": {"category": cfg["level"], "text": t["level"], "design_ref": t["ref"]},
            "level_note": t["note"],
            "technique": t["technique"],
        })
        engines.setdefault(cfg["engine"], []).append(prop)
    hooks_commits = []
    try:
        out = subprocess.run(["git", "-C", "/repo", "log", "--format=%h %s"], stdout=subprocess.PIPE, text=True).stdout
        hooks_commits = [l.split()[0] for l in out.splitlines() if l.split(" ", 1)[1].startswith("verif hooks")]
    except Exception:
        pass
    claimed = {c["property_id"] for c in checks}
    na = [{"property_id": k, "reason": v} for k, v in sorted(NA.items())]
    pending = {"C04", "C05", "C09", "C10", "C12", "C14", "C17", "C18"} - claimed
    for p in sorted(pending):
        na.append({"property_id": p, "reason": "applicable (see DESIGN.md §5) but no check is registered for it at this commit: its engine/profile is not finished; not claimed rather than claimed without machinery"})
    m = {
        "version": 1,
        "setup_cmd": "./check setup",
        "hooks": {"guard": "verif", "enable": "go1.26.8 test -c -tags verif in /verif/harness (module replaces github.com/btcsuite/btcd and its nine sub-modules with /repo)",
                  "baseline_off_cmd": "./baseline_off.sh", "source_commits": hooks_commits, "add_only": True},
        "engines": [{"name": e, "path": "/verif/harness/" + e, "serves_properties": ps, "kind_free_text": "deterministic simulation engine (Go test binary driven by /verif/check)"} for e, ps in sorted(engines.items())],
        "checks": checks,
        "not_applicable": na,
        "notes": "Deterministic simulation with fault injection; see DESIGN.md. ./check <id> quick|thorough; VERIF_SEED and VERIF_BUDGET_S honoured; exit 0/1/2 = held / VIOLATION / harness trouble.",
    }
    with open(os.path.join(verif, "MANIFEST.json"), "w") as f:
        json.dump(m, f, indent=1)
    print("manifest: %d checks, %d not_applicable" % (len(checks), len(na)))

if __name__ == "__main__":
    main()

#!/usr/bin/env python3
"""seedmeta.py <id> <property> <result> <caught_by> [strengthening]  - writes seeded/<id>/meta.json"""
import json, sys, os
sid, prop, result, caught = sys.argv[1:5]
strength = sys.argv[5] if len(sys.argv) > 5 else ""
d = f"/verif/seeded/{sid}"
readme = open(os.path.join(d, "README.md")).read() if os.path.exists(os.path.join(d, "README.md")) else ""
meta = {
 "id": sid, "property": prop,
 "source": "independent sub-agent given only the property text and a scratch worktree",
 "needs_to_manifest": readme[:3000],
 "confirmed": "patch applies to /repo HEAD; the sub-agent's demonstration fails with the change and passes without it (see README.md); module tests still pass with the change",
 "ran": f"./seedcheck.sh seeded/{sid}/patch.diff {prop}  (git apply, ./check {prop} quick, git apply -R)",
 "result": result, "caught_by": caught, "strengthening": strength,
}
json.dump(meta, open(os.path.join(d, "meta.json"), "w"), indent=1)
print("wrote", d + "/meta.json")

package simkit

import (
	"crypto/sha256"
	"encoding/hex"
	"fmt"
	"hash"
	"hash/fnv"
	"sort"
	"testing"
	"time"
)

// Violation is what an oracle reports.
type Violation struct {
	Property string `json:"property"`
	Oracle   string `json:"oracle"`
	Msg      string `json:"msg"`
	EventSeq int    `json:"event_seq"`
	KnownID  string `json:"known_id,omitempty"`
}

// FaultCount counts how often a fault kind was enabled for a run and how
// often it actually fired.
type FaultCount struct {
	Configured int `json:"configured"`
	Fired      int `json:"fired"`
}

type abortRun struct{}

// Run is the context of one simulated execution.
type Run struct {
	T        *testing.T
	C        Chooser
	Seed     uint64
	Property string // property whose check is running
	Tier     string
	Known    *KnownFindings

	seq        int
	lines      []string
	digest     hash.Hash
	sig        hash.Hash
	Faults     map[string]*FaultCount
	Probes     map[string]int
	States     map[uint64]struct{}
	nontriv    bool
	viol       *Violation
	knownHits  []Violation
	epoch      time.Time
	simStart   time.Time
	simElapsed time.Duration
	Meta       map[string]string // knobs / profile, for samples
	Counters   map[string]int    // engine-specific additive counters
}

func newRun(t *testing.T, c Chooser, seed uint64, prop, tier string, known *KnownFindings) *Run {
	return &Run{
		T: t, C: c, Seed: seed, Property: prop, Tier: tier, Known: known,
		digest: sha256.New(), sig: sha256.New(),
		Faults: map[string]*FaultCount{}, Probes: map[string]int{},
		States: map[uint64]struct{}{}, Meta: map[string]string{},
		Counters: map[string]int{},
		simStart: time.Now(),
	}
}

// MarkEpoch restarts the simulated-time measure (call after the jump to the
// run's epoch).
func (r *Run) MarkEpoch() { r.simStart = time.Now() }

// Seq returns the global event sequence number of the last event.
func (r *Run) Seq() int { return r.seq }

// Event appends to the event log. Never draws, never reads a real clock
// (time.Now inside a bubble is the simulated clock).
func (r *Run) Event(kind string, format string, args ...any) int {
	r.seq++
	line := fmt.Sprintf("%d t=%d %s %s", r.seq, time.Since(r.simStart)/time.Millisecond, kind, fmt.Sprintf(format, args...))
	r.digest.Write([]byte(line))
	r.digest.Write([]byte{'\n'})
	if len(r.lines) < 4000 {
		r.lines = append(r.lines, line)
	}
	return r.seq
}

// Sig adds an abstract token to the run signature (used for
// distinct_nontrivial).
func (r *Run) Sig(tok string) { r.sig.Write([]byte(tok)); r.sig.Write([]byte{0}) }

// NonTrivial marks the run as non-trivial by the engine's rule.
func (r *Run) NonTrivial() { r.nontriv = true }

// FaultEnabled records that a fault kind is configured in this run.
func (r *Run) FaultEnabled(kind string) {
	f := r.Faults[kind]
	if f == nil {
		f = &FaultCount{}
		r.Faults[kind] = f
	}
	f.Configured++
}

// Fault records that a fault kind actually fired.
func (r *Run) Fault(kind string) {
	f := r.Faults[kind]
	if f == nil {
		f = &FaultCount{}
		r.Faults[kind] = f
	}
	f.Fired++
}

// Probe counts a "this rare condition was hit" event.
func (r *Run) Probe(name string) { r.Probes[name]++ }

// Count adds to an additive engine counter.
func (r *Run) Count(name string, n int) { r.Counters[name] += n }

// State records an abstract state (distinct-state measure).
func (r *Run) State(format string, args ...any) {
	h := fnv.New64a()
	fmt.Fprintf(h, format, args...)
	r.States[h.Sum64()] = struct{}{}
}

// Violate reports a violation of property by oracle and aborts the run.  If
// knownKey is non-empty and a listed finding with that key exists for the
// property, the hit is recorded as a known finding and the run continues.
func (r *Run) Violate(property, oracle, knownKey string, format string, args ...any) {
	msg := fmt.Sprintf(format, args...)
	v := Violation{Property: property, Oracle: oracle, Msg: msg, EventSeq: r.seq}
	if knownKey != "" && r.Known != nil {
		if id := r.Known.Match(property, knownKey); id != "" {
			v.KnownID = id
			r.knownHits = append(r.knownHits, v)
			r.Event("known-finding", "%s %s %s", property, id, msg)
			return
		}
	}
	r.Event("VIOLATION", "%s %s %s", property, oracle, msg)
	r.viol = &v
	panic(abortRun{})
}

// Abort ends the run early without a verdict (e.g. a generated case turned
// out to be infeasible).  Counted, never a violation.
func (r *Run) Abort(reason string) {
	r.Event("abort", "%s", reason)
	r.Count("aborted:"+reason, 1)
	panic(abortRun{})
}

func (r *Run) digestHex() string { return hex.EncodeToString(r.digest.Sum(nil)) }
func (r *Run) sigHex() string    { return hex.EncodeToString(r.sig.Sum(nil)[:8]) }

// Lines returns the human-readable event log.
func (r *Run) Lines() []string { return r.lines }

// SortedKeys is a helper for deterministic iteration over string-keyed maps.
func SortedKeys[V any](m map[string]V) []string {
	ks := make([]string, 0, len(m))
	for k := range m {
		ks = append(ks, k)
	}
	sort.Strings(ks)
	return ks
}

package simkit

import (
	"encoding/json"
	"fmt"
	"hash/fnv"
	"os"
	"path/filepath"
	"runtime"
	"runtime/pprof"
	"runtime/debug"
	"strconv"
	"strings"
	"sync/atomic"
	"testing"
	"testing/synctest"
	"time"
)

// EngineFunc executes one whole simulated run.  It is called on the root
// goroutine of a fresh synctest bubble.
type EngineFunc func(r *Run)

// Options configure a worker for one engine.
type Options struct {
	Engine string
	// LeakProperty/LeakOracle: when non-empty, goroutines left blocked at the
	// end of the bubble are a violation of that property.
	LeakProperty string
	LeakOracle   string
	// HangProperty: when non-empty, a run that exceeds the real-time watchdog
	// is reported as a violation (deadlock) of that property instead of a
	// harness error.
	HangProperty string
	// Components lists which parts ran real code and which a stub.
	Real []string
	Stub []string
	// Setup runs once per process before the first run (outside any bubble).
	Setup func(t *testing.T)
}

// Sample is a written-out case for the evidence file.
type Sample struct {
	RunSeed uint64            `json:"run_seed"`
	Meta    map[string]string `json:"meta"`
	Choices int               `json:"choices"`
	Events  []string          `json:"events"`
}

// ViolationReport is a violation plus its replay file.
type ViolationReport struct {
	Violation
	RunSeed       uint64 `json:"run_seed"`
	Replay        string `json:"replay"`
	ChoicesBefore int    `json:"choices_before"`
	ChoicesAfter  int    `json:"choices_after"`
	MinimiseRuns  int    `json:"minimise_runs"`
}

// WorkerResult is what a worker process writes to VERIF_OUT.
type WorkerResult struct {
	Engine     string                 `json:"engine"`
	Property   string                 `json:"property"`
	Tier       string                 `json:"tier"`
	Mode       string                 `json:"mode"`
	Seed       uint64                 `json:"seed"`
	Worker     int                    `json:"worker"`
	Runs       int                    `json:"runs"`
	NonTrivial int                    `json:"nontrivial"`
	Signatures []string               `json:"signatures"`
	States     []string               `json:"states"`
	StatesTrnc bool                   `json:"states_truncated"`
	Faults     map[string]*FaultCount `json:"faults"`
	Probes     map[string]int         `json:"probes"`
	Counters   map[string]int         `json:"counters"`
	SimTimeS   float64                `json:"sim_time_s"`
	WallS      float64                `json:"wall_s"`
	FirstRun   uint64                 `json:"first_run_seed"`
	LastRun    uint64                 `json:"last_run_seed"`
	// Recycle: the worker stopped early because its memory grew past the
	// limit (stores abandoned after injected faults cannot be freed); the
	// driver starts a fresh process at NextIndex.
	Recycle   bool `json:"recycle,omitempty"`
	NextIndex int  `json:"next_index,omitempty"`
	Samples    []Sample               `json:"samples"`
	fallback   []Sample
	Violations []ViolationReport      `json:"violations"`
	KnownHits  map[string]int         `json:"known_hits"`
	KnownMsgs  map[string]string      `json:"known_msgs"`
	Digests    map[string]string      `json:"digests,omitempty"`
	Leaks      int                    `json:"bubble_leaks"`
	Errors     []string               `json:"harness_errors"`
	Real       []string               `json:"real"`
	Stub       []string               `json:"stub"`
	GoVersion  string                 `json:"go"`
	MaxProcs   int                    `json:"gomaxprocs"`
}

// ReplayFile is the on-disk reproduction of one run.
type ReplayFile struct {
	Engine     string     `json:"engine"`
	Property   string     `json:"property"`
	CheckProp  string     `json:"check_property"`
	Tier       string     `json:"tier"`
	RunSeed    uint64     `json:"run_seed"`
	MasterSeed uint64     `json:"master_seed"`
	Go         string     `json:"go"`
	RepoRev    string     `json:"repo_rev"`
	Minimised  bool       `json:"minimised"`
	Choices    []Choice   `json:"choices"`
	// SeedOnly: no recorded choices (the process died inside the run, e.g. a
	// panic on a goroutine of the system under test): replay draws from the
	// run seed's PRNG again.
	SeedOnly  bool       `json:"seed_only,omitempty"`
	Violation *Violation `json:"violation"`
	LogDigest  string     `json:"event_log_digest"`
	Log        []string   `json:"event_log"`
}

func envInt(name string, def int) int {
	if s := os.Getenv(name); s != "" {
		if v, err := strconv.Atoi(s); err == nil {
			return v
		}
	}
	return def
}

func envU64(name string, def uint64) uint64 {
	if s := os.Getenv(name); s != "" {
		if v, err := strconv.ParseUint(s, 10, 64); err == nil {
			return v
		}
		if v, err := strconv.ParseInt(s, 10, 64); err == nil {
			return uint64(v)
		}
	}
	return def
}

func hashStr(s string) uint64 {
	h := fnv.New64a()
	h.Write([]byte(s))
	return h.Sum64()
}

type outcome struct {
	r        *Run
	leak     string
	harness  string // non-empty: harness (not SUT) failure
	sutPanic string
}

var currentRun atomic.Pointer[string]

// execOne runs fn once inside a fresh bubble.
func execOne(t *testing.T, name string, c Chooser, seed uint64, prop, tier string, known *KnownFindings, fn EngineFunc) (o outcome) {
	t.Run(name, func(st *testing.T) {
		defer func() {
			if p := recover(); p != nil {
				s := fmt.Sprint(p)
				if strings.Contains(s, "deadlock: main bubble goroutine has exited") {
					o.leak = s
					return
				}
				extra := ""
				if strings.Contains(s, "all goroutines in bubble are blocked") {
					buf := make([]byte, 1<<20)
					n := runtime.Stack(buf, true)
					var keep []string
					for _, g := range strings.Split(string(buf[:n]), "\n\n") {
						if strings.Contains(g, "synctest bubble") {
							keep = append(keep, g)
						}
					}
					extra = "\nblocked goroutines of the bubble:\n" + strings.Join(keep, "\n\n")
					if len(extra) > 12000 {
						extra = extra[:12000]
					}
				}
				o.harness = "panic outside run: " + s + "\n" + string(debug.Stack()) + extra
			}
		}()
		synctest.Test(st, func(bt *testing.T) {
			r := newRun(bt, c, seed, prop, tier, known)
			o.r = r
			defer func() {
				r.simElapsed = time.Since(r.simStart)
				if p := recover(); p != nil {
					if _, ok := p.(abortRun); ok {
						return
					}
					stack := string(debug.Stack())
					if panicInSUT(stack) {
						o.sutPanic = fmt.Sprint(p) + "\n" + trimStack(stack)
					} else {
						o.harness = "harness panic: " + fmt.Sprint(p) + "\n" + stack
					}
				}
			}()
			fn(r)
		})
	})
	return o
}

// panicInSUT reports whether the innermost non-runtime frame of the panic is
// in the repository under test rather than in harness code.
func panicInSUT(stack string) bool {
	lines := strings.Split(stack, "\n")
	seenPanic := false
	for _, l := range lines {
		if strings.HasPrefix(l, "panic(") {
			seenPanic = true
			continue
		}
		if !seenPanic || strings.HasPrefix(l, "\t") || l == "" {
			continue
		}
		if strings.HasPrefix(l, "runtime.") || strings.HasPrefix(l, "runtime/") {
			continue
		}
		return strings.HasPrefix(l, "github.com/btcsuite/btcd") || strings.HasPrefix(l, "github.com/syndtr/goleveldb")
	}
	return false
}

// PanicInSUT is the exported form of the panic classifier (for engines that
// capture panics on their own goroutines).
func PanicInSUT(stack string) bool { return panicInSUT(stack) }

func trimStack(s string) string {
	if len(s) > 3000 {
		return s[:3000]
	}
	return s
}

// WorkerMain is the body of the single Test function of an engine's test
// binary.  Everything is driven by environment variables set by /verif/check.
func WorkerMain(t *testing.T, opt Options, fn EngineFunc) {
	mode := os.Getenv("VERIF_MODE")
	if mode == "" {
		mode = "run"
	}
	prop := os.Getenv("VERIF_PROP")
	tier := os.Getenv("VERIF_TIER")
	if tier == "" {
		tier = "quick"
	}
	master := envU64("VERIF_SEED", 1)
	worker := envInt("VERIF_WORKER", 0)
	nworkers := envInt("VERIF_NWORKERS", 1)
	maxRuns := envInt("VERIF_RUNS", 50)
	budget := time.Duration(envInt("VERIF_BUDGET_S", 60)) * time.Second
	out := os.Getenv("VERIF_OUT")
	replayDir := os.Getenv("VERIF_REPLAY_DIR")
	known, err := LoadKnown(os.Getenv("VERIF_KNOWN"))
	if err != nil {
		t.Fatalf("known findings: %v", err)
	}
	if opt.Setup != nil {
		opt.Setup(t)
	}

	res := &WorkerResult{
		Engine: opt.Engine, Property: prop, Tier: tier, Mode: mode, Seed: master, Worker: worker,
		Faults: map[string]*FaultCount{}, Probes: map[string]int{}, Counters: map[string]int{},
		KnownHits: map[string]int{}, KnownMsgs: map[string]string{},
		Real: opt.Real, Stub: opt.Stub, GoVersion: runtime.Version(), MaxProcs: runtime.GOMAXPROCS(0),
	}
	write := func() {
		if out == "" {
			return
		}
		b, _ := json.Marshal(res)
		tmp := out + ".tmp"
		if err := os.WriteFile(tmp, b, 0o644); err == nil {
			os.Rename(tmp, out)
		}
	}

	// real-time watchdog against hangs the bubble cannot see (mutex waits).
	var lastProgress atomic.Int64
	lastProgress.Store(time.Now().UnixNano())
	runLimit := time.Duration(envInt("VERIF_RUN_LIMIT_S", 180)) * time.Second
	go func() {
		for {
			time.Sleep(2 * time.Second)
			if time.Since(time.Unix(0, lastProgress.Load())) > runLimit {
				name := ""
				if p := currentRun.Load(); p != nil {
					name = *p
				}
				res.Errors = append(res.Errors, "watchdog: run "+name+" exceeded "+runLimit.String())
				if opt.HangProperty != "" {
					fmt.Printf("HANG property=%s run=%s\n", opt.HangProperty, name)
				}
				write()
				buf := make([]byte, 1<<20)
				n := runtime.Stack(buf, true)
				os.Stderr.Write(buf[:n])
				os.Exit(3)
			}
		}
	}()

	if mode == "replay" {
		replayMain(t, opt, fn, known, res, write)
		return
	}

	sigs := map[string]struct{}{}
	states := map[uint64]struct{}{}
	base := Mix(master, hashStr(prop+"/"+opt.Engine))
	if mode == "determinism" {
		res.Digests = map[string]string{}
	}
	start := time.Now()
	startIdx := envInt("VERIF_START", 0)
	memLimit := uint64(envInt("VERIF_MEM_LIMIT_MB", 1800)) << 20
	for i := startIdx; i < maxRuns; i++ {
		if time.Since(start) > budget {
			break
		}
		if mode == "run" && i > startIdx && (i-startIdx)%25 == 0 {
			var ms runtime.MemStats
			runtime.ReadMemStats(&ms)
			if ms.HeapInuse+ms.StackInuse > memLimit {
				res.Recycle, res.NextIndex = true, i
				break
			}
		}
		g := uint64(i)*uint64(nworkers) + uint64(worker)
		runSeed := Mix(base, g)
		if mode == "determinism" {
			// same seeds in every process regardless of worker layout
			runSeed = Mix(base, uint64(i)+0xd00d)
		}
		name := fmt.Sprintf("s%d", runSeed)
		currentRun.Store(&name)
		if out != "" {
			// if the process dies inside this run the driver still knows which one it was
			os.WriteFile(out+".cur", []byte(strconv.FormatUint(runSeed, 10)), 0o644)
		}
		lastProgress.Store(time.Now().UnixNano())
		c := NewPRNGChooser(runSeed, 0)
		o := execOne(t, name, c, runSeed, prop, tier, known, fn)
		lastProgress.Store(time.Now().UnixNano())
		if os.Getenv("VERIF_MEMSTATS") != "" && i%20 == 0 {
			var ms runtime.MemStats
			runtime.ReadMemStats(&ms)
			fmt.Fprintf(os.Stderr, "MEMSTATS run=%d t=%ds sys=%dM heapInuse=%dM heapIdle=%dM heapReleased=%dM stack=%dM goroutines=%d numGC=%d\n", i, int(time.Since(start).Seconds()),
				ms.Sys>>20, ms.HeapInuse>>20, ms.HeapIdle>>20, ms.HeapReleased>>20, ms.StackInuse>>20, runtime.NumGoroutine(), ms.NumGC)
			if i == 40 {
				pprof.Lookup("goroutine").WriteTo(os.Stderr, 1)
			}
		}
		if i == startIdx {
			res.FirstRun = runSeed
		}
		res.LastRun = runSeed
		res.Runs++
		if o.harness != "" {
			res.Errors = append(res.Errors, fmt.Sprintf("run %d: %s", runSeed, o.harness))
			if len(res.Errors) > 5 {
				break
			}
			continue
		}
		r := o.r
		if r == nil {
			res.Errors = append(res.Errors, fmt.Sprintf("run %d: no run context", runSeed))
			continue
		}
		absorb(res, r, sigs, states)
		if mode == "determinism" {
			res.Digests[strconv.FormatUint(runSeed, 10)] = r.digestHex()
		}
		if d := os.Getenv("VERIF_DUMP_SEED"); d != "" && d == strconv.FormatUint(runSeed, 10) {
			// debugging aid: the event log of one run
			os.WriteFile(os.Getenv("VERIF_DUMP_TO"), []byte(strings.Join(r.Lines(), "\n")+"\n"), 0o644)
		}
		viol := r.viol
		if viol == nil && o.sutPanic != "" {
			viol = &Violation{Property: prop, Oracle: "no-panic", Msg: o.sutPanic, EventSeq: r.seq}
		}
		if viol == nil && o.leak != "" {
			res.Leaks++
			if opt.LeakProperty != "" {
				viol = &Violation{Property: opt.LeakProperty, Oracle: opt.LeakOracle, Msg: o.leak, EventSeq: r.seq}
			}
		}
		if viol != nil && mode == "determinism" {
			res.Counters["violations_seen_in_determinism_mode"]++
			viol = nil
		}
		if viol != nil {
			rep := reportViolation(t, opt, fn, known, res, r, viol, runSeed, master, replayDir, &lastProgress)
			res.Violations = append(res.Violations, rep)
			write()
			if len(res.Violations) >= envInt("VERIF_MAX_VIOLATIONS", 1) {
				break
			}
		}
		if i%50 == 49 {
			res.WallS = time.Since(start).Seconds()
			finish(res, sigs, states)
			write()
		}
	}
	res.WallS = time.Since(start).Seconds()
	finish(res, sigs, states)
	write()
}

func absorb(res *WorkerResult, r *Run, sigs map[string]struct{}, states map[uint64]struct{}) {
	for k, f := range r.Faults {
		d := res.Faults[k]
		if d == nil {
			d = &FaultCount{}
			res.Faults[k] = d
		}
		d.Configured += f.Configured
		d.Fired += f.Fired
	}
	for k, v := range r.Probes {
		res.Probes[k] += v
	}
	for k, v := range r.Counters {
		res.Counters[k] += v
	}
	for s := range r.States {
		if len(states) < 200000 {
			states[s] = struct{}{}
		} else {
			res.StatesTrnc = true
		}
	}
	res.SimTimeS += r.simElapsed.Seconds()
	for _, k := range r.knownHits {
		res.KnownHits[k.KnownID]++
		if _, ok := res.KnownMsgs[k.KnownID]; !ok {
			res.KnownMsgs[k.KnownID] = k.Property + " " + k.Msg
		}
	}
	if !r.nontriv && len(res.Samples) == 0 && len(res.fallback) < 2 {
		// keep a couple of trivial runs as well, so that a batch without any
		// non-trivial run can still show what its cases looked like
		ev := r.lines
		if len(ev) > 30 {
			ev = ev[:30]
		}
		res.fallback = append(res.fallback, Sample{RunSeed: r.Seed, Meta: r.Meta, Choices: len(r.C.Recorded()), Events: ev})
	}
	if r.nontriv {
		res.NonTrivial++
		s := r.sigHex()
		if _, ok := sigs[s]; !ok {
			sigs[s] = struct{}{}
			if len(res.Samples) < 3 {
				ev := r.lines
				if len(ev) > 60 {
					ev = append(append([]string{}, ev[:50]...), fmt.Sprintf("... (%d more events)", len(r.lines)-50))
				}
				res.Samples = append(res.Samples, Sample{RunSeed: r.Seed, Meta: r.Meta, Choices: len(r.C.Recorded()), Events: ev})
			}
		}
	}
}

func finish(res *WorkerResult, sigs map[string]struct{}, states map[uint64]struct{}) {
	if len(res.Samples) == 0 {
		res.Samples = append(res.Samples, res.fallback...)
	}
	res.Signatures = res.Signatures[:0]
	for s := range sigs {
		res.Signatures = append(res.Signatures, s)
	}
	res.States = res.States[:0]
	for s := range states {
		res.States = append(res.States, strconv.FormatUint(s, 16))
	}
}

func sameViolation(a *Violation, o outcome, opt Options, prop string) bool {
	var v *Violation
	if o.r != nil {
		v = o.r.viol
	}
	if v == nil && o.sutPanic != "" {
		v = &Violation{Property: prop, Oracle: "no-panic"}
	}
	if v == nil && o.leak != "" && opt.LeakProperty != "" {
		v = &Violation{Property: opt.LeakProperty, Oracle: opt.LeakOracle}
	}
	return v != nil && v.Property == a.Property && v.Oracle == a.Oracle
}

func reportViolation(t *testing.T, opt Options, fn EngineFunc, known *KnownFindings, res *WorkerResult,
	r *Run, viol *Violation, runSeed, master uint64, dir string, progress *atomic.Int64) ViolationReport {

	orig := append([]Choice{}, r.C.Recorded()...)
	rep := ViolationReport{Violation: *viol, RunSeed: runSeed, ChoicesBefore: len(orig)}
	best := orig
	bestRun := r
	bestViol := viol
	runs := 0
	minimised := false
	if os.Getenv("VERIF_NO_MINIMISE") == "" {
		deadline := time.Now().Add(time.Duration(envInt("VERIF_MINIMISE_S", 60)) * time.Second)
		maxTries := envInt("VERIF_MINIMISE_RUNS", 400)
		try := func(cand []Choice) bool {
			if runs >= maxTries || time.Now().After(deadline) {
				return false
			}
			runs++
			progress.Store(time.Now().UnixNano())
			name := fmt.Sprintf("min%d_%d", runSeed, runs)
			currentRun.Store(&name)
			c := NewReplayChooser(cand)
			o := execOne(t, name, c, runSeed, r.Property, r.Tier, known, fn)
			if o.harness != "" || o.r == nil {
				return false
			}
			if !sameViolation(viol, o, opt, r.Property) {
				return false
			}
			rec := c.Recorded()
			// an exhausted replay list yields zeros: trailing zero choices
			// carry no information
			for len(rec) > 0 && rec[len(rec)-1].V == 0 {
				rec = rec[:len(rec)-1]
			}
			if minimised && len(rec) > len(best) {
				return false // never trade for a longer trace
			}
			best = append([]Choice{}, rec...)
			bestRun = o.r
			if o.r.viol != nil {
				bestViol = o.r.viol
			}
			return true
		}
		// first make sure the recorded choices reproduce at all
		if try(orig) {
			minimised = true
			// phase 1: delete chunks
			for size := len(best) / 2; size >= 1; size /= 2 {
				for i := 0; i+size <= len(best); {
					cand := append(append([]Choice{}, best[:i]...), best[i+size:]...)
					if !try(cand) {
						i += size
					}
					if runs >= maxTries || time.Now().After(deadline) {
						break
					}
				}
			}
			// phase 2: lower values
			for i := 0; i < len(best) && runs < maxTries && time.Now().Before(deadline); i++ {
				if best[i].V == 0 {
					continue
				}
				cand := append([]Choice{}, best...)
				cand[i].V = 0
				if try(cand) {
					continue
				}
				if i < len(best) && best[i].V > 1 {
					cand = append([]Choice{}, best...)
					cand[i].V = best[i].V / 2
					try(cand)
				}
			}
		}
	}
	rep.ChoicesAfter = len(best)
	rep.MinimiseRuns = runs
	rf := ReplayFile{
		Engine: opt.Engine, Property: bestViol.Property, CheckProp: r.Property, Tier: r.Tier, RunSeed: runSeed,
		MasterSeed: master, Go: runtime.Version(), RepoRev: os.Getenv("VERIF_REPO_REV"),
		Minimised: minimised, Choices: best, Violation: bestViol,
		LogDigest: bestRun.digestHex(), Log: bestRun.lines,
	}
	if dir != "" {
		os.MkdirAll(dir, 0o755)
		p := filepath.Join(dir, fmt.Sprintf("%s-%s-%d.json", viol.Property, sanitize(viol.Oracle), runSeed))
		b, _ := json.MarshalIndent(rf, "", " ")
		if err := os.WriteFile(p, b, 0o644); err == nil {
			rep.Replay = p
		}
	}
	return rep
}

func sanitize(s string) string {
	var b strings.Builder
	for _, c := range s {
		if (c >= 'a' && c <= 'z') || (c >= 'A' && c <= 'Z') || (c >= '0' && c <= '9') || c == '-' || c == '_' {
			b.WriteRune(c)
		} else {
			b.WriteByte('_')
		}
	}
	return b.String()
}

func replayMain(t *testing.T, opt Options, fn EngineFunc, known *KnownFindings, res *WorkerResult, write func()) {
	path := os.Getenv("VERIF_REPLAY")
	b, err := os.ReadFile(path)
	if err != nil {
		t.Fatalf("replay file: %v", err)
	}
	var rf ReplayFile
	if err := json.Unmarshal(b, &rf); err != nil {
		t.Fatalf("replay file: %v", err)
	}
	prop := rf.CheckProp
	if prop == "" {
		prop = rf.Property
	}
	var c Chooser = NewReplayChooser(rf.Choices)
	if rf.SeedOnly {
		c = NewPRNGChooser(rf.RunSeed, 0)
	}
	name := fmt.Sprintf("replay%d", rf.RunSeed)
	currentRun.Store(&name)
	o := execOne(t, name, c, rf.RunSeed, prop, rf.Tier, known, fn)
	res.Runs = 1
	if o.harness != "" {
		res.Errors = append(res.Errors, o.harness)
		write()
		fmt.Println("REPLAY harness-error")
		return
	}
	same := rf.Violation != nil && sameViolation(rf.Violation, o, opt, prop)
	digestEq := o.r != nil && o.r.digestHex() == rf.LogDigest
	if os.Getenv("VERIF_REPLAY_VERBOSE") != "" && o.r != nil {
		for _, l := range o.r.lines {
			fmt.Println(l)
		}
	}
	if same {
		v := o.r.viol
		if v == nil {
			v = rf.Violation
		}
		res.Violations = append(res.Violations, ViolationReport{Violation: *v, RunSeed: rf.RunSeed, Replay: path})
	}
	fmt.Printf("REPLAY reproduced=%v digest_equal=%v\n", same, digestEq)
	write()
}

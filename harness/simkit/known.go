package simkit

import (
	"encoding/json"
	"os"
)

// KnownEntry is one line of /verif/known_findings.json.
//
//	status "finding": a genuine defect recorded rather than repaired; a
//	    violation whose structural key equals Key prints KNOWN-FINDING and does
//	    not fail the run.
//	status "fixed": repaired by a fix: commit; suppresses nothing.
type KnownEntry struct {
	ID       string `json:"id"`
	Property string `json:"property"`
	Status   string `json:"status"`
	Key      string `json:"key"`
	Commit   string `json:"commit,omitempty"`
	What     string `json:"what"`
}

// KnownFindings is the parsed file.  It is never written at run time.
type KnownFindings struct {
	Entries []KnownEntry `json:"entries"`
}

// LoadKnown reads the file; a missing file is an empty list.
func LoadKnown(path string) (*KnownFindings, error) {
	k := &KnownFindings{}
	b, err := os.ReadFile(path)
	if err != nil {
		if os.IsNotExist(err) {
			return k, nil
		}
		return nil, err
	}
	if err := json.Unmarshal(b, k); err != nil {
		return nil, err
	}
	return k, nil
}

// Match returns the id of the listed *finding* (not fixed) entry for the
// property with this structural key, or "".
func (k *KnownFindings) Match(property, key string) string {
	for _, e := range k.Entries {
		if e.Status == "finding" && e.Property == property && e.Key == key {
			return e.ID
		}
	}
	return ""
}

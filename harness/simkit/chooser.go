// Package simkit is the shared simulator kit: the single source of choices,
// the event log, fault/probe registries, the run context, replay files, the
// minimiser and the worker main loop.  See /verif/DESIGN.md §2.
package simkit

import (
	"encoding/binary"
	"math/rand/v2"
)

// Choice is one recorded decision.
type Choice struct {
	Tag string `json:"t"`
	N   int64  `json:"n"`
	V   int64  `json:"v"`
}

// Chooser is the only source of nondeterminism an engine may use.
type Chooser interface {
	// Intn returns a value in [0,n). n<=1 returns 0 without recording.
	Intn(n int, tag string) int
	// Bool returns true with probability permille/1000.
	Bool(permille int, tag string) bool
	// Bytes returns n pseudo-random bytes derived from one recorded choice.
	Bytes(n int, tag string) []byte
	// Recorded returns the choices made so far.
	Recorded() []Choice
}

type prngChooser struct {
	rng *rand.Rand
	rec []Choice
}

// NewPRNGChooser returns a recording chooser seeded from (seed, stream).
func NewPRNGChooser(seed, stream uint64) Chooser {
	return &prngChooser{rng: rand.New(rand.NewPCG(seed, stream^0x9e3779b97f4a7c15))}
}

func (c *prngChooser) Intn(n int, tag string) int {
	if n <= 1 {
		return 0
	}
	v := c.rng.IntN(n)
	c.rec = append(c.rec, Choice{tag, int64(n), int64(v)})
	return v
}

func (c *prngChooser) Bool(permille int, tag string) bool {
	if permille <= 0 {
		return false
	}
	if permille >= 1000 {
		return true
	}
	// value 0 is "false" so that the simplest replay choice means "no".
	v := c.rng.IntN(1000)
	b := v >= 1000-permille
	var iv int64
	if b {
		iv = 1
	}
	c.rec = append(c.rec, Choice{tag, -int64(permille), iv})
	return b
}

func (c *prngChooser) Bytes(n int, tag string) []byte {
	s := int64(c.rng.Uint64() >> 1)
	c.rec = append(c.rec, Choice{tag, 0, s})
	return expand(uint64(s), n)
}

func (c *prngChooser) Recorded() []Choice { return c.rec }

func expand(seed uint64, n int) []byte {
	out := make([]byte, n)
	if seed == 0 {
		return out // simplest choice: all zero
	}
	r := rand.New(rand.NewPCG(seed, 0x5bd1e995))
	var buf [8]byte
	for i := 0; i < n; i += 8 {
		binary.LittleEndian.PutUint64(buf[:], r.Uint64())
		copy(out[i:], buf[:])
	}
	return out
}

type replayChooser struct {
	in  []Choice
	pos int
	rec []Choice
}

// NewReplayChooser replays recorded values in order regardless of tags; a
// value out of range is reduced mod n; an exhausted list yields 0.
func NewReplayChooser(in []Choice) Chooser { return &replayChooser{in: in} }

func (c *replayChooser) next() int64 {
	if c.pos >= len(c.in) {
		return 0
	}
	v := c.in[c.pos].V
	c.pos++
	if v < 0 {
		v = -v
	}
	return v
}

func (c *replayChooser) Intn(n int, tag string) int {
	if n <= 1 {
		return 0
	}
	v := c.next() % int64(n)
	c.rec = append(c.rec, Choice{tag, int64(n), v})
	return int(v)
}

func (c *replayChooser) Bool(permille int, tag string) bool {
	if permille <= 0 {
		return false
	}
	if permille >= 1000 {
		return true
	}
	v := c.next()
	b := v != 0
	var iv int64
	if b {
		iv = 1
	}
	c.rec = append(c.rec, Choice{tag, -int64(permille), iv})
	return b
}

func (c *replayChooser) Bytes(n int, tag string) []byte {
	s := c.next()
	c.rec = append(c.rec, Choice{tag, 0, s})
	return expand(uint64(s), n)
}

func (c *replayChooser) Recorded() []Choice { return c.rec }

// Helpers on top of a Chooser.

// Pick returns one of the weights' indices with probability proportional to
// its weight.
func Pick(c Chooser, tag string, weights ...int) int {
	tot := 0
	for _, w := range weights {
		tot += w
	}
	if tot <= 0 {
		return 0
	}
	v := c.Intn(tot, tag)
	for i, w := range weights {
		if v < w {
			return i
		}
		v -= w
	}
	return len(weights) - 1
}

// Range returns a value in [lo,hi].
func Range(c Chooser, lo, hi int, tag string) int {
	if hi <= lo {
		return lo
	}
	return lo + c.Intn(hi-lo+1, tag)
}

// Mix derives a sub-seed.
func Mix(a, b uint64) uint64 {
	x := a ^ (b + 0x9e3779b97f4a7c15 + (a << 6) + (a >> 2))
	x ^= x >> 30
	x *= 0xbf58476d1ce4e5b9
	x ^= x >> 27
	x *= 0x94d049bb133111eb
	x ^= x >> 31
	return x
}

//go:debug randseednop=0
package storesim

import (
	"fmt"
	"math/rand"
	"os"
	"runtime"
	"runtime/debug"
	"strings"
	"testing"
	"testing/synctest"
	"time"

	"github.com/btcsuite/btcd/database"
	"github.com/btcsuite/btcd/database/ffldb"

	"verif/harness/modeldb"
	"verif/harness/simfs"
	"verif/harness/simkit"
)

func TestWorker(t *testing.T) {
	simkit.WorkerMain(t, simkit.Options{
		Engine: "storesim",
		Real: []string{"database/ffldb (db, dbcache, blockio, reconcile, ldbtreapiter)", "database/internal/treap",
			"github.com/syndtr/goleveldb (on a harness storage.Storage)"},
		Stub: []string{"disk (simfs)", "reference model (modeldb)"},
		Setup: func(t *testing.T) {
			ffldb.VerifDeterministicCursors = true
		},
	}, run)
}

// batches: fault-free and fault-injecting configurations are separate.
const (
	batchRefine = iota
	batchIOErr
	batchCrashProcess
	batchCrashPower
	batchIsolation
	batchWriters
)

var batchNames = [...]string{"refine", "ioerr", "crash_process", "crash_powerloss", "isolation", "writers"}

func run(r *simkit.Run) {
	rand.Seed(int64(r.Seed))
	ffldb.VerifResetCounters()
	defer ffldb.SetVerifFS(nil)
	// goleveldb's pool goroutine lingers for one (simulated) second after Close
	defer time.Sleep(2 * time.Second)
	if os.Getenv("STORESIM_DUMP") == fmt.Sprint(r.Seed) {
		defer func() {
			f, _ := os.Create(os.Getenv("STORESIM_DUMP_TO"))
			for _, l := range r.Lines() {
				fmt.Fprintln(f, l)
			}
			f.Close()
		}()
	}
	if os.Getenv("STORESIM_DEBUG") != "" {
		defer func() {
			synctest.Wait()
			buf := make([]byte, 1<<20)
			n := runtime.Stack(buf, true)
			fmt.Printf("=== goroutines at end of run %d\n%s\n", r.Seed, buf[:n])
		}()
	}

	// jump to the run's epoch before any database exists (goleveldb tickers)
	time.Sleep(time.Duration(20*365+r.C.Intn(2000, "epoch-days")) * 24 * time.Hour)
	r.MarkEpoch()

	batch := simkit.Pick(r.C, "batch", 8, 8, 6, 6, 6, 1)
	if v := os.Getenv("STORESIM_BATCH"); v != "" { // debugging aid only
		batch = int(v[0] - '0')
	}
	r.Meta["batch"] = batchNames[batch]
	r.Sig("batch:" + batchNames[batch])
	if batch == batchIsolation {
		runIsolation(r)
		return
	}
	if batch == batchWriters {
		runWriters(r)
		return
	}

	maxOps := 60
	if batch != batchRefine {
		maxOps = 30
	}
	wl := genWorkload(r.C, maxOps)
	r.Meta["knobs"] = wl.knobClass
	r.Meta["ops"] = fmt.Sprint(wl.nOps)
	for _, tok := range wl.sigTokens() {
		r.Sig(tok)
	}

	// reference execution, fault-free, op-by-op refinement (oracle 1)
	ref := &sim{r: r, wl: wl}
	ref.execute()
	if ref.nonTrivial && batch == batchRefine {
		r.NonTrivial()
	}
	r.Count("ops_executed", ref.opCount)
	r.Count("io_calls_reference", ref.ioTotal)
	r.Event("ref", "io=%d k0=%d commits=%d trace=%s", ref.ioTotal, ref.k0, ref.commits, ref.fs.TraceDigest())
	if os.Getenv("STORESIM_DUMP") == fmt.Sprint(r.Seed) {
		for _, p := range ref.tracePoints {
			r.Event("iotrace", "%d %s %s off=%d len=%d", p.Index, p.Kind, p.Path, p.Off, p.Len)
		}
	}
	if batch == batchRefine {
		return
	}

	// fault enumeration over the I/O points of this workload
	lo, hi := ref.k0, ref.ioTotal
	n := hi - lo
	limit := 60
	if r.Tier == "thorough" {
		limit = 400
	}
	points := make([]int, 0, n)
	if n <= limit {
		for k := lo; k < hi; k++ {
			points = append(points, k)
		}
		r.Count("workloads_enumerated_completely", 1)
	} else {
		// seeded subset, without replacement, in increasing order
		stride := n / limit
		for k := lo; k < hi; k += stride {
			j := k + r.C.Intn(stride, "io-point")
			if j < hi {
				points = append(points, j)
			}
		}
		r.Count("workloads_enumerated_by_subset", 1)
	}
	fired := 0
	switch batch {
	case batchIOErr:
		for _, kind := range []string{"io_write_err", "io_short_write", "io_sync_err", "io_read_err", "io_open_err", "io_remove_err", "ldb_storage_err", "crash_after_io_error"} {
			r.FaultEnabled(kind)
		}
		for _, k := range points {
			salt := uint64(r.C.Intn(1<<20, "fault-salt"))
			plan := faultPlan{mode: fmFail, at: k, salt: salt, secondAt: -1}
			if r.C.Bool(300, "then-crash") {
				// the error is followed, some I/O calls later, by a crash: what
				// the failed call left behind has to survive that too
				plan.crashAfter = 1 + r.C.Intn(80, "then-crash-after")
				plan.crashMode = simfs.PowerLoss
				if r.C.Bool(300, "then-crash-process") {
					plan.crashMode = simfs.ProcessCrash
				}
			}
			s := &sim{r: r, wl: wl, quiet: os.Getenv("STORESIM_VERBOSE") == "", plan: plan}
			s.execute()
			if s.fired {
				fired++
				r.Fault(s.firedKind)
				r.Sig("f:" + s.firedKind)
			}
			if s.crashFired {
				r.Fault("crash_after_io_error")
				r.Probe("crash_after_io_error")
			}
			r.Event("ioerr", "k=%d %s %s@%s fired=%v restarts=%d commits=%d then-crash=%d/%v", k, s.firedKind, s.firedPoint.Kind,
				shortPath(s.firedPoint.Path), s.fired, s.restarts, s.model.Commits(), plan.crashAfter, s.crashFired)
		}
		r.Count("io_points_failed", fired)
	case batchCrashProcess, batchCrashPower:
		mode := simfs.ProcessCrash
		kind := "crash_process"
		if batch == batchCrashPower {
			mode = simfs.PowerLoss
			kind = "crash_powerloss"
			r.FaultEnabled("torn_write")
			r.FaultEnabled("lost_unsynced")
		}
		r.FaultEnabled(kind)
		r.FaultEnabled("crash_during_reconcile")
		for _, k := range points {
			salt := uint64(r.C.Intn(1<<20, "fault-salt"))
			second := -1
			if r.C.Bool(200, "second-crash") {
				second = r.C.Intn(40, "second-crash-at")
			}
			s := &sim{r: r, wl: wl, quiet: os.Getenv("STORESIM_VERBOSE") == "", plan: faultPlan{mode: fmCrash, at: k, salt: salt, crashMode: mode, secondAt: second}}
			s.execute()
			if s.fired {
				fired++
				r.Fault(kind)
			}
		}
		r.Count("crash_points_enumerated", fired)
		r.Sig("f:" + kind)
	}
	if ref.nonTrivial && fired > 0 {
		r.NonTrivial()
	}
	r.State("files=%d buckets=%s commits=%s", len(ref.model.Files()), classN(strings.Count(ref.modelDump(ref.model.Commits()), "/\n")), classN(ref.commits))
}

func classN(n int) string {
	switch {
	case n == 0:
		return "0"
	case n == 1:
		return "1"
	case n <= 3:
		return "2-3"
	case n <= 8:
		return "4-8"
	}
	return "9+"
}

func shortPath(p string) string {
	if i := strings.LastIndexByte(p, '/'); i >= 0 {
		p = p[i+1:]
	}
	switch {
	case strings.HasSuffix(p, ".fdb"):
		return "blockfile"
	case strings.HasSuffix(p, ".ldb"):
		return "ldb-table"
	case strings.HasSuffix(p, ".log"):
		return "ldb-journal"
	case strings.HasPrefix(p, "MANIFEST"):
		return "ldb-manifest"
	}
	return p
}

// ---------------------------------------------------------------------------
// one execution

func (s *sim) execute() {
	r := s.r
	s.install(simfs.New())
	if os.Getenv("STORESIM_DUMP") != "" {
		s.fs.KeepTrace(true)
	}
	s.model = modeldb.New(netID, s.wl.maxFile)
	if err := s.openReal(true); err != nil {
		panic("storesim: cannot create the store on an empty simulated disk: " + err.Error())
	}
	if s.wl.warmup {
		// Close+Open right after creation: goleveldb replays its journal into a
		// synced table, so the batch that initialised the store is durable and
		// the memdb is empty before the workload (and the fault window) starts
		if err := s.closeReal(); err != nil {
			panic("storesim: warm-up close: " + err.Error())
		}
		if err := s.openReal(false); err != nil {
			panic("storesim: warm-up open: " + err.Error())
		}
	}
	s.k0 = s.fs.IOCount()
	s.armed = s.plan.mode != fmNone
	defer func() {
		// the simulated machine is discarded: so are the leveldb handles that
		// failed opens left behind (ffldb does not close them)
		defer ffldb.VerifReapLeaked()
		// never leave a store open (its goroutines would outlive the bubble);
		// after an injected fault Close itself may block for ever (see guard)
		if s.real != nil {
			db := s.real
			s.real = nil
			ffldb.VerifForget(db)
			if s.plan.mode == fmNone {
				_ = db.Close()
				return
			}
			done := make(chan struct{})
			go func() { _ = db.Close(); close(done) }()
			select {
			case <-done:
			case <-time.After(10 * time.Minute):
				s.r.Probe("store_hung_after_fault_abandoned")
			}
		}
	}()
	stopped := false
	for s.stepIdx = 0; s.stepIdx < len(s.wl.steps) && !stopped; s.stepIdx++ {
		if st := &s.wl.steps[s.stepIdx]; st.kind == stAdvance {
			time.Sleep(st.adv) // not under the hang watchdog
			s.event("advance", "%s", st.adv)
			continue
		}
		stopped = s.guard(func() { s.runStep(&s.wl.steps[s.stepIdx]) })
	}
	if !stopped {
		stopped = s.guard(s.finish)
	}
	if s.plan.mode == fmNone {
		s.ioTotal = s.fs.IOCount()
		s.tracePoints = s.fs.Points()
	}
	if os.Getenv("STORESIM_TRACEALL") != "" && s.plan.mode != fmNone {
		for _, p := range s.fs.Points() {
			r.Event("iotrace", "%d %s %s off=%d len=%d", p.Index, p.Kind, p.Path, p.Off, p.Len)
		}
	}
	if s.plan.mode == fmNone && !s.quiet {
		r.State("files=%s cache=%s", classN(len(s.model.Files())), s.wl.knobClass)
	}
}

// guard runs fn; a needRestart raised inside (the store refuses service after
// an injected fault) leads to a restart of the store.  It reports whether the
// execution has to stop.
//
// In fault-injecting executions fn runs on its own goroutine under a
// simulated-time watchdog: after some injected errors goleveldb never releases
// its writer lock again (OpenTransaction returns without unlocking when the
// memdb flush fails), so that a later flush or Close blocks for ever.  A store
// that hangs is abandoned (not closed) and the "process" restarted.
func (s *sim) guard(fn func()) (stop bool) {
	type outcome struct {
		nr    *needRestart
		stop  bool
		p     any
		stack string
	}
	body := func() (o outcome) {
		defer func() {
			if p := recover(); p != nil {
				switch v := p.(type) {
				case needRestart:
					o.nr = &v
				case stopExec:
					o.stop = true
				default:
					o.p = p
					o.stack = string(debug.Stack())
				}
			}
		}()
		fn()
		return
	}
	var o outcome
	if s.plan.mode == fmNone {
		o = body()
	} else {
		ch := make(chan outcome, 1)
		go func() { ch <- body() }()
		select {
		case o = <-ch:
		case <-time.After(10 * time.Minute):
			s.r.Probe("store_hung_after_fault_abandoned")
			s.r.Count("hangs_after_fault", 1)
			if s.real != nil {
				ffldb.VerifForget(s.real)
				s.real = nil // abandoned, never closed: Close would block too
			}
			s.hung = true
			if s.fs.Frozen() {
				// hung while closing the store abandoned by the crash
				return !s.afterHangCrash()
			}
			return s.guard(func() {
				if !s.restartAfterFault("store hung") {
					panic(stopExec{})
				}
			})
		}
	}
	if o.p != nil {
		if fmt.Sprintf("%T", o.p) != "simkit.abortRun" && sutPanic(o.stack) {
			if s.fs.Frozen() {
				// the "process" is already dead: what the abandoned store does
				// on the frozen disk is an artefact of the simulation
				s.r.Probe("panic_on_frozen_disk_ignored")
				return s.guard(s.recoverFromCrash)
			}
			key := ""
			if s.fired && (s.firedKind == "io_read_err" || s.firedKind == "io_open_err" || s.firedKind == "ldb_storage_err") {
				// a metadata read that failed is reported as "key absent";
				// code that then decodes the absent value panics
				key = "panic-after-swallowed-read-error"
			}
			s.r.Violate(prop, "no-panic", key, "panic in the store after injected %s: %v [%s]", s.firedKind, o.p, cleanStack(o.stack))
			// listed finding: the panic unwound (and rolled back) the
			// transaction; the state must be the one before it
			n := s.model.Commits()
			return s.guard(func() { s.aftermath(n, n) })
		}
		panic(o.p)
	}
	if o.nr != nil {
		// (guarded again: the restart may meet the crash that follows the
		// injected error, and the recovery may hang or end the execution)
		why := o.nr.why
		return s.guard(func() {
			if !s.restartAfterFault(why) {
				panic(stopExec{})
			}
		})
	}
	return o.stop
}

// cleanStack reduces a stack trace to its function names (no goroutine ids,
// no argument values, no addresses), so that the event log stays reproducible.
func cleanStack(stack string) string {
	var out []string
	for _, l := range strings.Split(stack, "\n") {
		if l == "" || strings.HasPrefix(l, "\t") || strings.HasPrefix(l, "goroutine ") || strings.HasPrefix(l, "created by") {
			continue
		}
		if i := strings.LastIndexByte(l, '('); i > 0 {
			l = l[:i]
		}
		if strings.HasPrefix(l, "runtime") || l == "panic" {
			continue
		}
		out = append(out, l)
		if len(out) >= 12 {
			break
		}
	}
	return strings.Join(out, " < ")
}

func trim(s string, n int) string {
	if len(s) > n {
		return s[:n]
	}
	return s
}

// sutPanic: the frame that raised the original panic (the last "panic(" in the
// trace; re-panics of deferred functions come first), skipping standard
// library frames, is repository or goleveldb code.
func sutPanic(stack string) bool {
	lines := strings.Split(stack, "\n")
	last := -1
	for i, l := range lines {
		if strings.HasPrefix(l, "panic(") {
			last = i
		}
	}
	if last < 0 {
		return false
	}
	for _, l := range lines[last+1:] {
		if strings.HasPrefix(l, "\t") || l == "" {
			continue
		}
		if strings.HasPrefix(l, "github.com/btcsuite/btcd") || strings.HasPrefix(l, "github.com/syndtr/goleveldb") {
			return true
		}
		if strings.HasPrefix(l, "verif/") {
			return false
		}
		// standard library frame (encoding/binary, runtime, bytes ...): keep looking
	}
	return false
}

// stopExec ends the current execution quietly (after a listed known finding
// was recorded, or when the store cannot be brought back).
type stopExec struct{}

func (s *sim) runStep(st *step) {
	switch st.kind {
	case stAdvance:
		time.Sleep(st.adv)
		s.event("advance", "%s", st.adv)
	case stTx:
		attempted, cerr := s.runTx(st.tx)
		if s.fs.Frozen() {
			s.recoverFromCrash()
			return
		}
		if s.fired && !s.handled {
			hi := s.model.Commits()
			lo := hi
			if attempted {
				lo = hi - 1
				if cerr == nil {
					lo = hi // acknowledged: must have taken effect
				} else {
					// refused: the caller was told the update failed and will
					// undo its own state; the running store must not show it
					hi = lo
				}
			}
			s.aftermath(lo, hi)
		}
	case stReopen:
		s.runReopen(st)
	}
}

func (s *sim) runReopen(st *step) {
	firedBefore := s.fired
	old := s.real
	rerr := s.closeReal()
	merr := s.model.Close()
	s.event("close", "-> %s", errCode(rerr))
	if s.fs.Frozen() {
		s.model.Reopen()
		s.recoverFromCrash()
		return
	}
	faulted := s.fired && !firedBefore
	if errCode(rerr) != errCode(merr) && !faulted && !s.postFault {
		s.violate("refinement", "", "Close: real=%v model=%v", rerr, merr)
	}
	if st.probeClosed && rerr == nil {
		_, e1 := s.model.Begin(false)
		e2 := s.model.Close()
		e3 := s.model.View(func(database.Tx) error { return nil })
		_, r1 := old.Begin(false)
		r2 := old.Close()
		r3 := old.View(func(database.Tx) error { return nil })
		s.event("probe", "closed-db %s %s %s", errCode(r1), errCode(r2), errCode(r3))
		if errCode(e1) != errCode(r1) || errCode(e2) != errCode(r2) || errCode(e3) != errCode(r3) {
			s.violate("refinement", "", "closed database: Begin/Close/View real=%s/%s/%s model=%s/%s/%s",
				errCode(r1), errCode(r2), errCode(r3), errCode(e1), errCode(e2), errCode(e3))
		}
	}
	s.model.Reopen()
	err := s.openReal(false)
	s.event("open", "-> %s", errCode(err))
	if s.fs.Frozen() {
		s.recoverFromCrash()
		return
	}
	faulted = s.fired && !firedBefore
	if err != nil {
		if !faulted && !s.postFault {
			s.violate("refinement", "", "Open of a cleanly closed store failed without any fault: %v", err)
		}
		// the failed Open may have leaked its handles: restart the process
		if !s.restartAfterFault("open: " + errCode(err)) {
			panic(stopExec{})
		}
		return
	}
	if faulted && !s.handled {
		s.aftermath(s.durable, s.model.Commits())
	}
}

// aftermath judges the state right after the injected I/O error: it must be
// the model after lo or after hi commits (lo..hi are consecutive or equal).
func (s *sim) aftermath(lo, hi int) {
	s.handled = true
	s.postFault = true
	d, err := s.dump(s.real)
	if s.fs.Frozen() {
		// the crash that follows the injected error came during the dump
		s.recoverFromCrash()
		return
	}
	if err != nil {
		// unusable: the statement allows Close + reopen
		if !s.restartAfterFault("dump: " + errCode(err)) {
			panic(stopExec{})
		}
		return
	}
	for n := hi; n >= lo; n-- {
		if d == s.modelDump(n) {
			s.adopt(n)
			s.event("aftermath", "state = model after %d commits (candidates %d..%d)", n, lo, hi)
			return
		}
	}
	key := ""
	if (s.commitPrune || (s.everPruned() && s.prunedFile)) && strings.Contains(d, "UNREADABLE") {
		key = "prune-delete-before-durable"
	}
	s.r.Violate(prop, "atomicity-io-error", key,
		"after injected %s at I/O #%d (%s %s) the state is neither the model before nor after the transaction (candidates %d..%d): %s",
		s.firedKind, s.firedPoint.Index, s.firedPoint.Kind, shortPath(s.firedPoint.Path), lo, hi, firstDiff(d, s.modelDump(hi)))
	// a listed known finding: end this execution
	panic(stopExec{})
}

// restartAfterFault closes the (possibly unusable) store, restarts the
// "process" (every completed write is kept) and reopens.  The state must be
// the model after some prefix of commits not shorter than the durable bound.
// It reports false when the execution should stop.
func (s *sim) restartAfterFault(why string) bool {
	s.handled = true
	s.postFault = true
	s.restarts++
	s.r.Count("restarts_after_io_error", 1)
	cat := strings.SplitN(why, ":", 2)[0]
	if strings.HasPrefix(cat, "op ") {
		cat = "operation refused"
	}
	s.r.Count("restart_why:"+cat, 1)
	if s.restarts > 3 {
		s.r.Count("gave_up_after_repeated_restarts", 1)
		return false
	}
	_ = s.closeReal()
	if s.fs.Frozen() {
		// the crash that follows the injected error came while closing
		s.recoverFromCrash()
		return s.real != nil
	}
	image, _ := s.fs.CrashImage(simfs.ProcessCrash, nil, "")
	s.install(image)
	err := s.openReal(false)
	if s.fs.Frozen() {
		s.recoverFromCrash()
		return s.real != nil
	}
	if err != nil {
		s.r.Violate(prop, "reopen-after-io-error", s.openFailureKey(err.Error()),
			"after injected %s (%s) and a process restart the store does not open: %v", s.firedKind, why, err)
		return false
	}
	d, err := s.dump(s.real)
	if s.fs.Frozen() {
		s.recoverFromCrash()
		return s.real != nil
	}
	if err != nil {
		s.violate("reopen-after-io-error", "", "reopened store cannot be read: %v", err)
	}
	hi := s.model.Commits()
	for n := hi; n >= s.durable; n-- {
		if d == s.modelDump(n) {
			s.adopt(n)
			s.event("restart", "%s: state = model after %d commits (allowed %d..%d)", why, n, s.durable, hi)
			return true
		}
	}
	key := ""
	if strings.Contains(d, "UNREADABLE") && s.everPruned() && s.prunedFile {
		key = "prune-delete-before-durable"
	}
	s.r.Violate(prop, "prefix-after-io-error", key,
		"after injected %s (%s) and reopen the state is no prefix of the committed transactions in %d..%d: %s",
		s.firedKind, why, s.durable, hi, firstDiff(d, s.modelDump(hi)))
	return false
}

func (s *sim) everPruned() bool {
	for i := 0; i <= s.stepIdx && i < len(s.wl.steps); i++ {
		if st := s.wl.steps[i]; st.kind == stTx {
			for _, o := range st.tx.ops {
				if o.kind == opPrune {
					return true
				}
			}
		}
	}
	return false
}

func (s *sim) openFailureKey(msg string) string {
	return ""
}

// recoverFromCrash is called with the disk frozen.
func (s *sim) recoverFromCrash() {
	s.crashedInCommit = s.commitBlocks && s.blockWrites > 0 && s.plan.at == s.firedPoint.Index
	if s.real != nil {
		_ = s.real.Close() // all its I/O fails; lets its goroutines end (may hang: see guard)
		ffldb.VerifForget(s.real)
		s.real = nil
	}
	s.reopenAfterCrash()
}

// afterHangCrash continues the crash recovery when closing the abandoned store
// hung.  It reports false when the execution should stop.
func (s *sim) afterHangCrash() bool {
	stop := s.guard(s.reopenAfterCrash)
	return !stop
}

func (s *sim) reopenAfterCrash() {
	r := s.r
	hi := s.model.Commits()
	lo := s.durable
	crashedInCommit := s.crashedInCommit
	before := map[string]int{}
	for _, p := range s.fs.Paths() {
		if strings.HasSuffix(p, ".fdb") {
			b, _, _ := s.fs.Peek(p)
			before[p] = len(b)
		}
	}
	pick := func(n int, tag string) int { return r.C.Intn(n, tag) }
	image, rep := s.fs.CrashImage(s.plan.crashMode, pick, ".fdb")
	if rep.LostOps > 0 {
		r.Fault("lost_unsynced")
	}
	if rep.TornWrites > 0 {
		r.Fault("torn_write")
	}
	s.armed = false
	s.handled = true
	s.install(image)
	lostLoose := rep.LostInLoose
	if s.plan.secondAt >= 0 {
		at := s.plan.secondAt
		s.plan.secondAt = -1
		image.SetInjector(func(p simfs.IOPoint) simfs.Decision {
			if p.Index == at {
				return simfs.Decision{Action: simfs.ActCrash}
			}
			return simfs.Decision{}
		})
		err := s.openReal(false)
		if image.Frozen() {
			r.Fault("crash_during_reconcile")
			r.Probe("crash_during_reconcile")
			if s.real != nil {
				_ = s.real.Close()
				ffldb.VerifForget(s.real)
				s.real = nil
			}
			image2, rep2 := image.CrashImage(s.plan.crashMode, pick, ".fdb")
			lostLoose += rep2.LostInLoose
			image = image2
			s.install(image)
		} else if err != nil {
			s.crashViolation("crash-reopen", lostLoose, "store does not open after the crash: %v", err)
			return
		} else {
			image.SetInjector(nil)
		}
	}
	if s.real == nil {
		if err := s.openReal(false); err != nil {
			s.crashViolation("crash-reopen", lostLoose, "store does not open after the crash: %v", err)
			return
		}
	}
	for p, n := range before {
		b, _, ok := image.Peek(p)
		if !ok || len(b) < n {
			r.Probe("reconcile_truncated_file")
			break
		}
	}
	d, err := s.dump(s.real)
	if err != nil {
		s.crashViolation("crash-prefix", lostLoose, "reopened store cannot be read: %v", err)
		return
	}
	for n := hi; n >= lo; n-- {
		if d == s.modelDump(n) {
			if crashedInCommit && n < hi {
				r.Probe("crash_between_block_write_and_metadata")
			}
			s.adopt(n)
			s.event("recovered", "state = model after %d commits (allowed %d..%d)", n, lo, hi)
			return
		}
	}
	// not within the allowed window: is it an older prefix (durability) or a mixture?
	for n := lo - 1; n >= 0; n-- {
		if d == s.modelDump(n) {
			s.crashViolation("crash-durability", lostLoose,
				"state after the crash is the model after %d commits, but %d were committed before the last completed flush", n, lo)
			s.adopt(n)
			return
		}
	}
	s.crashViolation("crash-prefix", lostLoose, "state after the crash is no prefix of the committed transactions (allowed %d..%d): %s",
		lo, hi, firstDiff(d, s.modelDump(hi)))
	s.adopt(lo)
	s.postFault = true
}

// crashViolation reports a crash-oracle violation with the structural key of
// the suspected defect whose precondition holds, if any.
func (s *sim) crashViolation(oracle string, lostLoose int, format string, args ...any) {
	key := ""
	msg := fmt.Sprintf(format, args...)
	switch {
	case s.plan.crashMode == simfs.PowerLoss && strings.Contains(msg, "write cursor does not exist"):
		// the batch that initialises a new store is written without sync
		key = "init-batch-unsynced-powerloss"
	case s.everPruned() && s.prunedFile:
		key = "prune-delete-before-durable"
	case s.plan.crashMode == simfs.PowerLoss && s.rolled && lostLoose > 0:
		key = "rollover-unsynced-powerloss"
	}
	if s.plan.mode == fmFail {
		s.r.Violate(prop, oracle, key, "injected %s at I/O #%d (%s %s), then crash(%s) %d I/O calls later: %s", s.firedKind,
			s.firedPoint.Index, s.firedPoint.Kind, shortPath(s.firedPoint.Path), batchNames[batchCrashProcess+int(s.plan.crashMode)], s.plan.crashAfter, msg)
		panic(stopExec{})
	}
	s.r.Violate(prop, oracle, key, "crash(%s) at I/O #%d (%s %s), second=%d: %s", batchNames[batchCrashProcess+int(s.plan.crashMode)],
		s.firedPoint.Index, s.firedPoint.Kind, shortPath(s.firedPoint.Path), s.plan.secondAt, msg)
	// a listed known finding: end this execution
	panic(stopExec{})
}

// finish compares the final state live, then through a clean Close + Open.
func (s *sim) finish() {
	f0 := s.fired
	d, err := s.dump(s.real)
	if !s.fs.Frozen() && s.fired && !f0 {
		// the injected fault hit this very dump: it was a read-only victim
		s.handled, s.postFault = true, true
		d, err = s.dump(s.real)
	}
	if s.fs.Frozen() {
		s.recoverFromCrash()
		d, err = s.dump(s.real)
	}
	if err != nil {
		if s.postFault {
			panic(needRestart{why: "final dump: " + errCode(err)})
		}
		s.violate("refinement", "", "final dump failed without any fault: %v", err)
	}
	if m := s.modelDump(s.model.Commits()); d != m {
		s.violate(s.laterOracle(), "", "final state differs from the model: %s", firstDiff(d, m))
	}
	firedBefore := s.fired
	rerr := s.closeReal()
	if s.fs.Frozen() {
		s.recoverFromCrash()
	} else {
		if rerr != nil && !(s.fired && !firedBefore) && !s.postFault {
			s.violate("refinement", "", "final Close failed without any fault: %v", rerr)
		}
		err = s.openReal(false)
		if s.fs.Frozen() {
			s.recoverFromCrash()
		} else if err != nil {
			if !(s.fired && !firedBefore) && !s.postFault {
				s.violate("refinement", "", "final Open failed without any fault: %v", err)
			}
			if !s.restartAfterFault("final open: " + errCode(err)) {
				return
			}
		} else if s.fired && !firedBefore && !s.handled {
			s.aftermath(s.durable, s.model.Commits())
		}
	}
	if s.real == nil {
		return
	}
	f0 = s.fired
	d, err = s.dump(s.real)
	if !s.fs.Frozen() && s.fired && !f0 {
		s.handled, s.postFault = true, true
		d, err = s.dump(s.real)
	}
	if s.fs.Frozen() {
		s.recoverFromCrash()
		d, err = s.dump(s.real)
	}
	if err != nil {
		s.violate(s.laterOracle(), "", "dump after final reopen failed: %v", err)
	}
	if m := s.modelDump(s.model.Commits()); d != m {
		s.violate(s.laterOracle(), "", "state after a clean Close+Open differs from the model: %s", firstDiff(d, m))
	}
	s.event("final", "commits=%d dump=%s", s.model.Commits(), encBytes([]byte(d)))
	f0 = s.fired
	if err := s.closeReal(); err != nil && !s.postFault && !(s.fired && !f0) && !s.fs.Frozen() {
		s.violate("refinement", "", "last Close failed: %v", err)
	}
}

func (s *sim) laterOracle() string {
	if s.plan.mode == fmNone {
		return "refinement"
	}
	return "later-ops-after-fault"
}

var _ = database.ErrDbNotOpen

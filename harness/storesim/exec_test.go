package storesim

import (
	"bytes"
	"crypto/sha256"
	"encoding/hex"
	"errors"
	"fmt"
	"sort"
	"strings"
	"time"

	"github.com/btcsuite/btcd/chainhash/v2"
	"github.com/btcsuite/btcd/database"
	"github.com/btcsuite/btcd/database/ffldb"
	"github.com/btcsuite/btcd/wire/v2"

	"verif/harness/modeldb"
	"verif/harness/simfs"
	"verif/harness/simkit"
)

const (
	prop   = "C05"
	dbPath = "/simdisk/db"
	netID  = wire.SimNet
)

var (
	errFn      = errors.New("storesim: user function error")
	errForced  = errors.New("storesim: forced rollback after injected fault")
	errCrashed = errors.New("storesim: disk crashed")
)

// ---------------------------------------------------------------------------
// fault plan of one execution

type faultMode int

const (
	fmNone faultMode = iota
	fmFail
	fmCrash
)

type faultPlan struct {
	mode      faultMode
	at        int // I/O index on the first disk of the execution
	salt      uint64
	crashMode simfs.CrashMode
	// second crash while reopening after the first (index on the image), -1 = none
	secondAt int
	// fmFail only: crash (crashMode) this many I/O calls after the injected
	// error, counted over every disk image of the execution; 0 = none
	crashAfter int
}

// sim is one execution of a workload against the real store and the model.
type sim struct {
	r     *simkit.Run
	wl    *workload
	plan  faultPlan
	quiet bool

	fs    *simfs.FS
	real  database.DB
	model *modeldb.DB

	// fault state
	armed      bool
	fired      bool
	firedPoint simfs.IOPoint
	firedKind  string
	handled    bool
	postFault  bool // a fault fired earlier in this execution: block-file layout no longer predictable
	restarts   int
	sinceFault int  // I/O calls since the injected error (crashAfter plans)
	crashFired bool // the crash that follows the injected error has happened

	// durability tracking
	lastFlush     uint64
	lastFlushTime time.Time
	durable       int // commits known to be durable (lower bound)

	// bookkeeping
	k0              int // I/O count after creation
	ioTotal         int
	stepIdx         int
	opCount         int
	commits         int // committed write transactions acknowledged by the real store
	blockWrites     int // block-file writes seen during the current commit
	inCommit        bool
	commitBlocks    bool
	commitPrune     bool
	rolled          bool
	prunedFile      bool
	dumpCache       map[int]string
	nonTrivial      bool
	sawRollover     bool
	hung            bool
	flushedInCommit bool
	layerCache      map[string]bool // bucket path + key committed since the last flush
	layerDisk       map[string]bool // ... flushed to leveldb
	txPuts          []string
	tracePoints     []simfs.IOPoint
	fileBeforeTx    uint32
	crashedInCommit bool
}

func (s *sim) event(kind, format string, args ...any) {
	if s.quiet {
		return
	}
	s.r.Event(kind, format, args...)
}

// ---------------------------------------------------------------------------
// opening the real store on the simulated disk

func (s *sim) injector() simfs.Injector {
	return func(p simfs.IOPoint) simfs.Decision {
		if s.inCommit && p.Kind == simfs.OpWrite && strings.HasSuffix(p.Path, ".fdb") {
			s.blockWrites++
		}
		if s.armed && s.fired && s.plan.crashAfter > 0 && !s.crashFired {
			s.sinceFault++
			if s.sinceFault == s.plan.crashAfter {
				s.crashFired = true
				d := simfs.Decision{Action: simfs.ActCrash}
				if p.Kind == simfs.OpWrite && p.Len > 1 && s.plan.salt%5 == 1 {
					d.N = 1 + int(s.plan.salt/5)%(p.Len-1)
				}
				return d
			}
			return simfs.Decision{}
		}
		if !s.armed || s.fired || p.Index != s.plan.at {
			return simfs.Decision{}
		}
		s.fired = true
		s.firedPoint = p
		if s.plan.mode == fmCrash {
			s.firedKind = "crash"
			d := simfs.Decision{Action: simfs.ActCrash}
			if p.Kind == simfs.OpWrite && p.Len > 1 && s.plan.salt%3 == 1 {
				d.N = 1 + int(s.plan.salt/3)%(p.Len-1) // the in-flight write is torn
			}
			return d
		}
		d := simfs.Decision{Action: simfs.ActFail, Err: simfs.ErrInjected}
		switch p.Kind {
		case simfs.OpWrite:
			if s.plan.salt%2 == 1 && p.Len > 1 {
				s.firedKind = "io_short_write"
				d.Action = simfs.ActShort
				d.N = int(s.plan.salt/2) % p.Len
			} else {
				s.firedKind = "io_write_err"
			}
		case simfs.OpTruncate, simfs.OpClose:
			s.firedKind = "io_write_err"
		case simfs.OpSync:
			s.firedKind = "io_sync_err"
		case simfs.OpRead:
			s.firedKind = "io_read_err"
		case simfs.OpRemove:
			s.firedKind = "io_remove_err"
		case simfs.OpRename, simfs.OpSetMeta, simfs.OpGetMeta, simfs.OpLock:
			s.firedKind = "ldb_storage_err"
		case simfs.OpList:
			if p.Ldb {
				s.firedKind = "ldb_storage_err"
			} else {
				s.firedKind = "io_open_err"
			}
		default: // open, create, stat, mkdir
			s.firedKind = "io_open_err"
		}
		return d
	}
}

func (s *sim) install(fs *simfs.FS) {
	s.fs = fs
	fs.SetInjector(s.injector())
	ffldb.SetVerifFS(fs.FFLDB(simfs.DeterministicLevelDB))
}

func (s *sim) setKnobs() {
	ffldb.VerifSetCacheParams(s.real, s.wl.cacheMax, s.wl.flushSecs)
	ffldb.VerifSetMaxBlockFileSize(s.real, s.wl.maxFile)
	s.lastFlush = ffldb.VerifFlushCount(s.real)
	s.lastFlushTime = time.Now()
}

func (s *sim) openReal(create bool) error {
	var db database.DB
	var err error
	if create {
		db, err = database.Create("ffldb", dbPath, netID)
	} else {
		db, err = database.Open("ffldb", dbPath, netID)
	}
	if err != nil {
		return err
	}
	s.real = db
	s.setKnobs()
	return nil
}

func (s *sim) closeReal() error {
	if s.real == nil {
		return nil
	}
	err := s.real.Close()
	// a flush that ran to completion inside Close made everything durable,
	// whatever Close returns afterwards
	s.noteFlush(false)
	ffldb.VerifForget(s.real)
	s.real = nil
	return err
}

// noteFlush looks at the guarded flush counter after an operation that may
// flush and maintains the lower bound of durable commits.
func (s *sim) noteFlush(duringCommit bool) {
	if s.real == nil {
		return
	}
	fc := ffldb.VerifFlushCount(s.real)
	if fc == s.lastFlush {
		return
	}
	s.lastFlush = fc
	if s.layerDisk == nil {
		s.layerDisk, s.layerCache = map[string]bool{}, map[string]bool{}
	}
	for k := range s.layerCache {
		s.layerDisk[k] = true
	}
	s.layerCache = map[string]bool{}
	s.flushedInCommit = duringCommit
	n := s.model.Commits()
	if duringCommit {
		// the flush inside commit n wrote everything committed before it
		if n-1 > s.durable {
			s.durable = n - 1
		}
		if time.Since(s.lastFlushTime) > time.Duration(s.wl.flushSecs)*time.Second {
			s.r.Probe("flush_by_interval")
		} else {
			s.r.Probe("flush_by_size")
		}
	} else {
		s.durable = n
		s.r.Probe("flush_by_close")
	}
	s.lastFlushTime = time.Now()
}

// ---------------------------------------------------------------------------
// result encoding

func errCode(err error) string {
	if err == nil {
		return "ok"
	}
	if err == errFn {
		return "E:fn"
	}
	if err == errForced {
		return "E:forced"
	}
	var de database.Error
	if errors.As(err, &de) {
		return "E:" + de.ErrorCode.String()
	}
	return "E:other"
}

func isContractCode(c string) bool {
	switch c {
	case "ok", "E:fn", "E:ErrTxClosed", "E:ErrTxNotWritable", "E:ErrBucketNotFound", "E:ErrBucketExists",
		"E:ErrBucketNameRequired", "E:ErrKeyRequired", "E:ErrIncompatibleValue", "E:ErrBlockNotFound",
		"E:ErrBlockExists", "E:ErrBlockRegionInvalid":
		return true
	}
	return false
}

func encVal(v []byte) string {
	if v == nil {
		return "nil"
	}
	if len(v) > 24 {
		h := sha256.Sum256(v)
		return fmt.Sprintf("=%s..#%d:%s", v[:8], len(v), hex.EncodeToString(h[:4]))
	}
	return "=" + string(v)
}

func encBytes(b []byte) string {
	h := sha256.Sum256(b)
	return fmt.Sprintf("#%d:%s", len(b), hex.EncodeToString(h[:6]))
}

func isInternal(name []byte) bool { return bytes.HasPrefix(name, []byte("ffldb-")) }

func bucketAt(tx database.Tx, path []string) database.Bucket {
	b := tx.Metadata()
	for _, n := range path {
		if b == nil {
			return nil
		}
		b = b.Bucket([]byte(n))
	}
	return b
}

// applyOp executes one operation on one transaction and returns its observable
// result as a list of items.
func (s *sim) applyOp(tx database.Tx, o *txOp, isReal bool) []string {
	wl := s.wl
	switch o.kind {
	case opPut, opGet, opDel, opCreate, opCreateINE, opDelBucket, opBucket, opForEach, opForEachBucket, opCursor:
		b := bucketAt(tx, o.path)
		if b == nil {
			return []string{"nobucket"}
		}
		root := len(o.path) == 0
		switch o.kind {
		case opPut:
			return []string{errCode(b.Put([]byte(o.key), o.val))}
		case opGet:
			return []string{encVal(b.Get([]byte(o.key)))}
		case opDel:
			return []string{errCode(b.Delete([]byte(o.key)))}
		case opCreate:
			nb, err := b.CreateBucket([]byte(o.key))
			return []string{errCode(err), fmt.Sprint(nb != nil)}
		case opCreateINE:
			nb, err := b.CreateBucketIfNotExists([]byte(o.key))
			return []string{errCode(err), fmt.Sprint(nb != nil)}
		case opDelBucket:
			return []string{errCode(b.DeleteBucket([]byte(o.key)))}
		case opBucket:
			return []string{fmt.Sprint(b.Bucket([]byte(o.key)) != nil), fmt.Sprint(b.Writable())}
		case opForEach:
			var out []string
			n := 0
			err := b.ForEach(func(k, v []byte) error {
				if root && isInternal(k) {
					return nil
				}
				if n == o.stopAt {
					return errFn
				}
				n++
				out = append(out, string(k)+encVal(v))
				return nil
			})
			return append(out, errCode(err))
		case opForEachBucket:
			var out []string
			n := 0
			err := b.ForEachBucket(func(k []byte) error {
				if root && isInternal(k) {
					return nil
				}
				if n == o.stopAt {
					return errFn
				}
				n++
				out = append(out, string(k))
				return nil
			})
			return append(out, errCode(err))
		case opCursor:
			c := b.Cursor()
			var out []string
			for _, st := range o.cur {
				var ok bool
				switch st.kind {
				case cFirst:
					ok = c.First()
					for ok && root && isInternal(c.Key()) {
						ok = c.Next()
					}
				case cNext:
					ok = c.Next()
					for ok && root && isInternal(c.Key()) {
						ok = c.Next()
					}
				case cLast:
					ok = c.Last()
					for ok && root && isInternal(c.Key()) {
						ok = c.Prev()
					}
				case cPrev:
					ok = c.Prev()
					for ok && root && isInternal(c.Key()) {
						ok = c.Prev()
					}
				case cSeek:
					ok = c.Seek([]byte(st.seek))
					for ok && root && isInternal(c.Key()) {
						ok = c.Next()
					}
				case cDelete:
					out = append(out, "D:"+errCode(c.Delete()))
					continue
				}
				if !ok {
					out = append(out, curNames[st.kind]+":false")
					continue
				}
				out = append(out, curNames[st.kind]+":"+string(c.Key())+encVal(c.Value()))
			}
			return out
		}
	case opStore:
		return []string{errCode(tx.StoreBlock(wl.blocks[o.blk]))}
	case opHas:
		ok, err := tx.HasBlock(&wl.hashes[o.blk])
		return []string{fmt.Sprint(ok), errCode(err)}
	case opHasMany:
		oks, err := tx.HasBlocks(s.hashList(o.blks))
		out := make([]string, 0, len(oks)+1)
		for _, ok := range oks {
			out = append(out, fmt.Sprint(ok))
		}
		return append(out, errCode(err))
	case opFetch:
		b, err := tx.FetchBlock(&wl.hashes[o.blk])
		if err != nil {
			return []string{errCode(err)}
		}
		return []string{encBytes(b)}
	case opFetchMany:
		bs, err := tx.FetchBlocks(s.hashList(o.blks))
		if err != nil {
			return []string{errCode(err)}
		}
		return encMany(bs)
	case opHeader:
		b, err := tx.FetchBlockHeader(&wl.hashes[o.blk])
		if err != nil {
			return []string{errCode(err)}
		}
		return []string{encBytes(b)}
	case opHeaders:
		bs, err := tx.FetchBlockHeaders(s.hashList(o.blks))
		if err != nil {
			return []string{errCode(err)}
		}
		return encMany(bs)
	case opRegion:
		rg := o.regs[0]
		b, err := tx.FetchBlockRegion(&database.BlockRegion{Hash: &wl.hashes[rg.blk], Offset: rg.off, Len: rg.len})
		if err != nil {
			return []string{errCode(err)}
		}
		return []string{encBytes(b)}
	case opRegions:
		regs := make([]database.BlockRegion, len(o.regs))
		for i, rg := range o.regs {
			regs[i] = database.BlockRegion{Hash: &wl.hashes[rg.blk], Offset: rg.off, Len: rg.len}
		}
		bs, err := tx.FetchBlockRegions(regs)
		if err != nil {
			return []string{errCode(err)}
		}
		return encMany(bs)
	case opPrune:
		hs, err := tx.PruneBlocks(o.target)
		if err != nil {
			return []string{errCode(err)}
		}
		var idx []int
		for _, h := range hs {
			idx = append(idx, s.blockIndex(h))
		}
		sort.Ints(idx)
		return []string{fmt.Sprint(idx)}
	case opBeenPruned:
		ok, err := tx.BeenPruned()
		return []string{fmt.Sprint(ok), errCode(err)}
	}
	return nil
}

func encMany(bs [][]byte) []string {
	out := make([]string, 0, len(bs)+1)
	for _, b := range bs {
		out = append(out, encBytes(b))
	}
	return append(out, "ok")
}

func (s *sim) hashList(idx []int) []chainhash.Hash {
	out := make([]chainhash.Hash, len(idx))
	for i, b := range idx {
		out[i] = s.wl.hashes[b]
	}
	return out
}

func (s *sim) blockIndex(h chainhash.Hash) int {
	for i := range s.wl.hashes {
		if s.wl.hashes[i] == h {
			return i
		}
	}
	return -1
}

func (o *txOp) String() string {
	p := "/" + strings.Join(o.path, "/")
	switch o.kind {
	case opPut:
		return fmt.Sprintf("put %s %q%s", p, o.key, encVal(o.val))
	case opGet, opDel, opCreate, opCreateINE, opDelBucket, opBucket:
		return fmt.Sprintf("%s %s %q", opNames[o.kind], p, o.key)
	case opForEach, opForEachBucket:
		return fmt.Sprintf("%s %s stop=%d", opNames[o.kind], p, o.stopAt)
	case opCursor:
		var sb strings.Builder
		for _, c := range o.cur {
			sb.WriteString(curNames[c.kind])
			if c.kind == cSeek {
				sb.WriteString("(" + c.seek + ")")
			}
		}
		return fmt.Sprintf("cur %s %s", p, sb.String())
	case opStore, opHas, opFetch, opHeader:
		return fmt.Sprintf("%s b%d", opNames[o.kind], o.blk)
	case opHasMany, opFetchMany, opHeaders:
		return fmt.Sprintf("%s %v", opNames[o.kind], o.blks)
	case opRegion, opRegions:
		return fmt.Sprintf("%s %v", opNames[o.kind], o.regs)
	case opPrune:
		return fmt.Sprintf("prune %d", o.target)
	}
	return opNames[o.kind]
}

// ---------------------------------------------------------------------------
// comparison

type txCtx struct {
	mtx      database.Tx
	writable bool
	pruned   bool         // a PruneBlocks ran in this transaction
	pendingB map[int]bool // blocks stored in this transaction
	reversal bool         // set by cursor compare
	pre      map[string]bool // pairs of the bucket before a cursor op that may delete
}

// failureItem reports whether a real-side item only signals "I could not"
// (an error, a missing value, a stopped iteration) rather than carrying data.
func failureItem(it string) bool {
	return strings.HasPrefix(it, "E:") || it == "nil" || it == "false" || strings.HasSuffix(it, ":false") ||
		it == "nobucket" || strings.HasPrefix(it, "D:E:")
}

// regionOverrunWindow: the region ends 1..12 bytes past the block on a block
// that is not pending in this transaction.
func (s *sim) regionOverrunWindow(o *txOp, tc *txCtx) bool {
	for _, rg := range o.regs {
		l := uint64(len(s.wl.raw[rg.blk]))
		end := uint64(rg.off) + uint64(rg.len)
		if end > l && end <= l+12 && !tc.pendingB[rg.blk] {
			return true
		}
	}
	return false
}

// compareOp checks the real result against the model's.  lenient: the injected
// fault fired during this operation, so it may fail or return less, but must
// not return wrong data.  It returns false when the rest of the transaction
// must not be compared any more (diverged for a tolerated reason).
func (s *sim) compareOp(o *txOp, tc *txCtx, m, r []string, lenient bool) bool {
	if o.kind == opBeenPruned {
		// unambiguous cases only (see modeldb package comment)
		if lenient || s.postFault || tc.pruned || len(m) != 2 || len(r) != 2 {
			return true
		}
		if m[0] == "false" && r[0] != "false" {
			s.violate("refinement", "", "BeenPruned=%s on a store that was never pruned", r[0])
		}
		if m[0] == "true" && len(s.model.Files()) >= 2 && r[0] != "true" {
			s.violate("refinement", "", "BeenPruned=%s after pruning with %d files left", r[0], len(s.model.Files()))
		}
		return true
	}
	same := len(m) == len(r)
	if same {
		for i := range m {
			if m[i] != r[i] {
				same = false
				break
			}
		}
	}
	if same {
		return true
	}
	if lenient {
		for i := 0; i < len(r); i++ {
			if i < len(m) && m[i] == r[i] {
				continue
			}
			if failureItem(r[i]) {
				return false
			}
			if o.kind == opCursor && len(r[i]) > 2 && s.pairInModelBucket(tc, o.path, r[i][2:]) {
				// the failed read hid part of the bucket from the cursor;
				// what it shows is a genuine pair of the bucket
				s.r.Probe("cursor_skipped_pairs_on_io_error")
				return false
			}
			if i < len(m) && (m[i] == "E:ErrBucketExists" || m[i] == "E:ErrBlockExists") && r[i] == "ok" &&
				(s.firedKind == "io_read_err" || s.firedKind == "io_open_err" || s.firedKind == "ldb_storage_err") {
				// the existence check read "absent" because the failed read was
				// swallowed: the store accepts re-creating what exists
				s.r.Violate(prop, "no-wrong-bytes", "read-error-treated-as-absent",
					"op %s during injected %s: real=%v model=%v", o, s.firedKind, r, m)
				return false
			}
			if (o.kind == opForEach && s.pairInModelBucket(tc, o.path, r[i])) ||
				(o.kind == opForEachBucket && s.pairInModelBucket(tc, o.path, r[i]+"nil")) {
				// pairs hidden by the failed read were skipped; what is shown is genuine
				s.r.Probe("iteration_silently_truncated_by_io_error")
				continue
			}
			if o.kind == opPrune && i < len(m) && subsetList(r[i], m[i]) {
				// the index walk inside PruneBlocks was cut short by the failed read
				s.r.Probe("iteration_silently_truncated_by_io_error")
				return false
			}
			if r[i] == "ok" && i == len(r)-1 && i < len(m) {
				// an iteration cut short by the injected error that still
				// reports success: every returned pair was right
				s.r.Probe("iteration_silently_truncated_by_io_error")
				return false
			}
			s.violate("no-wrong-bytes", "", "op %s during injected %s returned %q, model %q (real=%v model=%v)",
				o, s.firedKind, r[i], at(m, i), r, m)
		}
		return false
	}
	// after an earlier fault the store may legitimately refuse service
	if s.postFault {
		for i := 0; i < len(r); i++ {
			if i < len(m) && m[i] == r[i] {
				continue
			}
			if strings.HasPrefix(r[i], "E:") && !isContractCode(r[i]) {
				panic(needRestart{why: fmt.Sprintf("op %s: %s", o, r[i])})
			}
			break
		}
	}
	// known structural deviations get their own oracle + key
	if (o.kind == opRegion || o.kind == opRegions) && s.regionOverrunWindow(o, tc) {
		s.r.Violate(prop, "region-bounds", "region-overrun-within-record-trailer",
			"op %s: a region ending 1..12 bytes past the end of a committed block is not refused: real=%v model=%v", o, r, m)
		return true
	}
	if o.kind == opCursor {
		if seekIntoBuckets(o, m, r) {
			// The interface does not say whether Seek past the last key
			// continues into the nested buckets; ffldb does or does not
			// depending on the layer the bucket entries live in.  Not judged.
			s.r.Probe("seek_past_keys_into_buckets_not_judged")
			return false // cursors diverged: abandon the transaction on both sides
		}
		if key := s.cursorDeviationKey(o, m, r); key != "" {
			s.r.Violate(prop, "cursor-order", key, "op %s: real=%v model=%v", o, r, m)
			// listed finding: the cursors (and, with Delete steps, the
			// transactions) have diverged; abandon the transaction on both sides
			return false
		}
	}
	s.violate("refinement", "", "op %s: real=%v model=%v", o, r, m)
	return true
}

// pairInModelBucket reports whether item (key+encoded value, or bucket
// name+"nil") is a pair of the bucket in the model transaction.
func (s *sim) pairInModelBucket(tc *txCtx, path []string, item string) bool {
	if tc.pre[item] {
		return true
	}
	b := bucketAt(tc.mtx, path)
	if b == nil {
		return false
	}
	found := false
	_ = b.ForEach(func(k, v []byte) error {
		if string(k)+encVal(v) == item {
			found = true
		}
		return nil
	})
	_ = b.ForEachBucket(func(k []byte) error {
		if string(k)+"nil" == item {
			found = true
		}
		return nil
	})
	return found
}

// subsetList: both are fmt.Sprint of []int; every element of a is in b.
func subsetList(a, b string) bool {
	if !strings.HasPrefix(a, "[") || !strings.HasPrefix(b, "[") {
		return false
	}
	in := map[string]bool{}
	for _, x := range strings.Fields(strings.Trim(b, "[]")) {
		in[x] = true
	}
	for _, x := range strings.Fields(strings.Trim(a, "[]")) {
		if !in[x] {
			return false
		}
	}
	return true
}

func at(l []string, i int) string {
	if i < len(l) {
		return l[i]
	}
	return "<none>"
}

// seekIntoBuckets: the first differing step is a Seek, or a Next after a Seek,
// for which the model (keys, then nested buckets) landed on a nested bucket
// and the real cursor reported "no pair".
func seekIntoBuckets(o *txOp, m, r []string) bool {
	i := 0
	for i < len(m) && i < len(r) && m[i] == r[i] {
		i++
	}
	if i >= len(o.cur) || i >= len(m) || i >= len(r) {
		return false
	}
	// model: a nested bucket; real: "no pair" or some other nested bucket
	if !(strings.HasSuffix(m[i], "nil") && (strings.HasSuffix(r[i], ":false") || strings.HasSuffix(r[i], "nil"))) {
		return false
	}
	// positioned by a Seek (possibly followed by Next steps)?
	for j := i; j >= 0; j-- {
		switch o.cur[j].kind {
		case cSeek:
			return true
		case cNext, cDelete:
			continue
		default:
			return false
		}
	}
	return false
}

// cursorDeviationKey classifies a cursor mismatch: if the first differing step
// is a move against the direction of the previous positioning/move (Prev after
// First/Next/Seek, Next after Last/Prev), the structural key of the
// direction-reversal defect is returned.
func (s *sim) cursorDeviationKey(o *txOp, m, r []string) string {
	i := 0
	for i < len(m) && i < len(r) && m[i] == r[i] {
		i++
	}
	if i >= len(o.cur) || i == 0 {
		return ""
	}
	dir := func(k curKind) int {
		switch k {
		case cFirst, cNext, cSeek:
			return +1
		case cLast, cPrev:
			return -1
		}
		return 0
	}
	if o.cur[i].kind != cNext && o.cur[i].kind != cPrev {
		return ""
	}
	// a reversal anywhere between the last absolute positioning and step i
	// leaves the two merged iterators inconsistent
	first := dir(o.cur[i].kind)
	for j := i - 1; j >= 0; j-- {
		d := dir(o.cur[j].kind)
		if d != 0 && d != first {
			return "cursor-direction-reversal"
		}
		if k := o.cur[j].kind; k == cFirst || k == cLast || k == cSeek {
			break
		}
	}
	// Cursor.Delete makes the pending-keys iterator remember its key for a
	// reseek; First/Last/Seek do not forget it, so the next relative move after
	// a repositioning continues from the stale key
	sawAbs := false
	for j := i - 1; j >= 0; j-- {
		switch o.cur[j].kind {
		case cFirst, cLast, cSeek:
			sawAbs = true
		case cDelete:
			if sawAbs && j < len(r) && r[j] == "D:ok" {
				return "cursor-stale-reseek-after-delete"
			}
		}
	}
	return ""
}

func (s *sim) violate(oracle, key, format string, args ...any) {
	s.r.Violate(prop, oracle, key, format, args...)
}

// needRestart is panicked (and recovered by the step driver) when, after an
// injected fault, the store refuses service and has to be reopened.
type needRestart struct{ why string }

// ---------------------------------------------------------------------------
// transactions in lockstep

// runOps executes the operations of a transaction step on both transactions.
// It returns the error the (managed) user function is to return.
func (s *sim) runOps(rtx, mtx database.Tx, st *txStep) error {
	tc := &txCtx{mtx: mtx, writable: st.writable, pendingB: map[int]bool{}}
	for i := range st.ops {
		o := &st.ops[i]
		if o.kind == opPrune && s.postFault {
			continue // block-file layout is no longer predictable
		}
		s.opCount++
		if o.kind == opPut && o.key != "" {
			s.txPuts = append(s.txPuts, strings.Join(o.path, "/")+"|"+o.key)
		}
		if o.kind == opCursor && tc.writable {
			s.probeLayers(o)
		}
		firedBefore := s.fired
		tc.pre = nil
		if o.kind == opCursor && tc.writable {
			// the op may delete pairs it has shown before
			tc.pre = map[string]bool{}
			if b := bucketAt(mtx, o.path); b != nil {
				_ = b.ForEach(func(k, v []byte) error { tc.pre[string(k)+encVal(v)] = true; return nil })
				_ = b.ForEachBucket(func(k []byte) error { tc.pre[string(k)+"nil"] = true; return nil })
			}
		}
		m := s.applyOp(mtx, o, false)
		r := s.applyOp(rtx, o, true)
		if s.fs.Frozen() {
			return errCrashed
		}
		lenient := s.fired && !firedBefore
		s.event("op", "%s -> %s", o, strings.Join(r, " "))
		ok := s.compareOp(o, tc, m, r, lenient)
		if o.kind == opStore && len(m) == 1 && m[0] == "ok" {
			tc.pendingB[o.blk] = true
		}
		if o.kind == opPrune && len(m) == 1 && !strings.HasPrefix(m[0], "E:") {
			tc.pruned = true
			if m[0] != "[]" {
				s.prunedFile = true
			}
		}
		if lenient {
			// the fault hit an operation inside the transaction: a caller
			// that saw an error would abandon the transaction; so do we.
			return errForced
		}
		if !ok {
			return errForced
		}
	}
	switch st.end {
	case endFnErr:
		return errFn
	}
	return nil
}

// probeLayers fires the probe when the bucket a cursor walks has keys in all
// three layers at once: pending in this transaction, committed but cached,
// flushed to leveldb (an approximation: deletions are ignored).
func (s *sim) probeLayers(o *txOp) {
	pre := strings.Join(o.path, "/") + "|"
	has := func(m map[string]bool) bool {
		for k := range m {
			if strings.HasPrefix(k, pre) {
				return true
			}
		}
		return false
	}
	pending := false
	for _, k := range s.txPuts {
		if strings.HasPrefix(k, pre) {
			pending = true
		}
	}
	if pending && has(s.layerCache) && has(s.layerDisk) {
		s.r.Probe("cursor_over_pending_cached_disk")
	}
}

func (s *sim) probeClosedTx(rtx, mtx database.Tx) {
	check := func(what string, r, m string) {
		if r != m {
			s.violate("refinement", "", "closed transaction: %s real=%s model=%s", what, r, m)
		}
	}
	check("Put", errCode(rtx.Metadata().Put([]byte("k0"), []byte("x"))), errCode(mtx.Metadata().Put([]byte("k0"), []byte("x"))))
	check("Get", encVal(rtx.Metadata().Get([]byte("k0"))), encVal(mtx.Metadata().Get([]byte("k0"))))
	_, e1 := rtx.FetchBlock(&s.wl.hashes[0])
	_, e2 := mtx.FetchBlock(&s.wl.hashes[0])
	check("FetchBlock", errCode(e1), errCode(e2))
	_, e1 = rtx.HasBlock(&s.wl.hashes[0])
	_, e2 = mtx.HasBlock(&s.wl.hashes[0])
	check("HasBlock", errCode(e1), errCode(e2))
	check("ForEach", errCode(rtx.Metadata().ForEach(func(k, v []byte) error { return nil })),
		errCode(mtx.Metadata().ForEach(func(k, v []byte) error { return nil })))
	check("CreateBucket", errCode2(rtx.Metadata().CreateBucket([]byte("n0"))), errCode2(mtx.Metadata().CreateBucket([]byte("n0"))))
	check("StoreBlock", errCode(rtx.StoreBlock(s.wl.blocks[0])), errCode(mtx.StoreBlock(s.wl.blocks[0])))
	check("Rollback", errCode(rtx.Rollback()), errCode(mtx.Rollback()))
	check("Commit", errCode(rtx.Commit()), errCode(mtx.Commit()))
	s.event("probe", "closed-tx")
}

func errCode2(_ database.Bucket, err error) string { return errCode(err) }

// beforeCommit / afterCommit bracket the real commit.
func (s *sim) beforeCommit(st *txStep) {
	s.inCommit = true
	s.blockWrites = 0
	s.commitBlocks, s.commitPrune = false, false
	for _, o := range st.ops {
		if o.kind == opStore {
			s.commitBlocks = true
		}
		if o.kind == opPrune {
			s.commitPrune = true
		}
	}
}

func (s *sim) afterCommit() {
	s.inCommit = false
	if f, _ := s.model.WriteCursor(); f != s.fileBeforeTx {
		s.rolled = true // the commit rolled over, whether or not it then failed or crashed
	}
	s.noteFlush(true)
}

// runTx executes one transaction step.  It returns whether a write commit was
// attempted on the real store (in flight when a fault fired), and the real
// commit error.
func (s *sim) runTx(st *txStep) (commitAttempted bool, commitErr error) {
	fileBefore, _ := s.model.WriteCursor()
	s.fileBeforeTx = fileBefore
	s.txPuts = s.txPuts[:0]
	s.flushedInCommit = false
	var lastR, lastM database.Tx
	if st.managed {
		var merr, inner error
		ran := false
		body := func(rtx database.Tx) error {
			ran = true
			lastR = rtx
			mbody := func(mtx database.Tx) error {
				lastM = mtx
				inner = s.runOps(rtx, mtx, st)
				return inner
			}
			if st.writable {
				merr = s.model.Update(mbody)
			} else {
				merr = s.model.View(mbody)
			}
			if inner == nil && st.writable {
				commitAttempted = true
				s.beforeCommit(st)
			}
			return inner
		}
		var rerr error
		if st.writable {
			rerr = s.real.Update(body)
		} else {
			rerr = s.real.View(body)
		}
		if commitAttempted {
			s.afterCommit()
			commitErr = rerr
		}
		s.event("tx", "managed w=%v end=%d -> %s", st.writable, st.end, errCode(rerr))
		if s.fs.Frozen() {
			return
		}
		if !ran {
			// begin failed on the real store
			s.txFailure("begin", rerr)
			return
		}
		if inner != nil {
			if rerr != inner || merr != inner {
				s.violate("refinement", "", "managed transaction: user function error %v not passed through: real=%v model=%v", inner, rerr, merr)
			}
		} else if errCode(rerr) != errCode(merr) {
			s.txFailure("commit", rerr)
		}
	} else {
		rtx, rerr := s.real.Begin(st.writable)
		if rerr != nil {
			s.event("tx", "begin w=%v -> %s", st.writable, errCode(rerr))
			if !s.fs.Frozen() {
				s.txFailure("begin", rerr)
			}
			return
		}
		mtx, merr := s.model.Begin(st.writable)
		if merr != nil {
			_ = rtx.Rollback()
			panic("storesim: model Begin failed: " + merr.Error())
		}
		lastR, lastM = rtx, mtx
		inner := func() error {
			defer func() {
				if p := recover(); p != nil {
					_ = mtx.Rollback()
					_ = rtx.Rollback()
					panic(p)
				}
			}()
			return s.runOps(rtx, mtx, st)
		}()
		if inner == errCrashed {
			_ = mtx.Rollback()
			_ = rtx.Rollback()
			return
		}
		if inner == nil && st.end == endCommit {
			merr = mtx.Commit()
			commitAttempted = true
			s.beforeCommit(st)
			rerr = rtx.Commit()
			s.afterCommit()
			commitErr = rerr
			s.event("tx", "commit -> %s", errCode(rerr))
			if s.fs.Frozen() {
				return
			}
			if errCode(rerr) != errCode(merr) {
				s.txFailure("commit", rerr)
			}
		} else {
			merr = mtx.Rollback()
			rerr = rtx.Rollback()
			s.event("tx", "rollback -> %s", errCode(rerr))
			if errCode(rerr) != errCode(merr) {
				s.violate("refinement", "", "Rollback: real=%v model=%v", rerr, merr)
			}
		}
	}
	if commitAttempted {
		if f, _ := s.model.WriteCursor(); f != fileBefore {
			s.rolled = true // also when the real commit then failed or crashed
		}
	}
	if commitAttempted && commitErr == nil {
		if s.layerDisk == nil {
			s.layerDisk, s.layerCache = map[string]bool{}, map[string]bool{}
		}
		for _, k := range s.txPuts {
			if s.flushedInCommit {
				s.layerDisk[k] = true // written straight to leveldb after the flush
			} else {
				s.layerCache[k] = true
			}
		}
		s.commits++
		s.nonTrivial = true
		if f, _ := s.model.WriteCursor(); f != fileBefore {
			s.r.Probe("file_rollover")
		}
		if s.commitPrune && s.prunedFile {
			s.r.Probe("prune_deleted_file")
		}
	}
	if st.probeClosed && lastR != nil && lastM != nil && !s.fired && !s.postFault {
		s.probeClosedTx(lastR, lastM)
	}
	return
}

// txFailure handles a real-side begin/commit error the model did not have.
func (s *sim) txFailure(what string, err error) {
	if s.fired && !s.handled {
		return // the injected fault: judged by the aftermath
	}
	if s.postFault && !isContractCode(errCode(err)) {
		panic(needRestart{why: what + ": " + errCode(err)})
	}
	s.violate("refinement", "", "%s failed without any injected fault: %v", what, err)
}

// ---------------------------------------------------------------------------
// full-state dump through the public interface

func dumpBucket(b database.Bucket, root bool, prefix string, sb *strings.Builder) error {
	err := b.ForEach(func(k, v []byte) error {
		if root && isInternal(k) {
			return nil
		}
		fmt.Fprintf(sb, "%s%s%s\n", prefix, k, encVal(v))
		return nil
	})
	if err != nil {
		return err
	}
	var names []string
	err = b.ForEachBucket(func(k []byte) error {
		if root && isInternal(k) {
			return nil
		}
		names = append(names, string(k))
		return nil
	})
	if err != nil {
		return err
	}
	for _, n := range names {
		c := b.Bucket([]byte(n))
		if c == nil {
			return fmt.Errorf("nested bucket %q listed but not found", n)
		}
		fmt.Fprintf(sb, "%s%s/\n", prefix, n)
		if err := dumpBucket(c, false, prefix+n+"/", sb); err != nil {
			return err
		}
	}
	return nil
}

// dump renders the whole observable state.  A block the index lists but that
// cannot be read back intact is rendered as such (never an error), so that it
// shows up as a state difference.
func (s *sim) dump(db database.DB) (string, error) {
	var sb strings.Builder
	err := db.View(func(tx database.Tx) error {
		if err := dumpBucket(tx.Metadata(), true, "/", &sb); err != nil {
			return err
		}
		for i := range s.wl.hashes {
			ok, err := tx.HasBlock(&s.wl.hashes[i])
			if err != nil {
				return err
			}
			if !ok {
				continue
			}
			b, err := tx.FetchBlock(&s.wl.hashes[i])
			if err != nil {
				fmt.Fprintf(&sb, "b%d UNREADABLE(%s)\n", i, errCode(err))
				continue
			}
			h, err := tx.FetchBlockHeader(&s.wl.hashes[i])
			if err != nil {
				fmt.Fprintf(&sb, "b%d HEADER-UNREADABLE(%s)\n", i, errCode(err))
				continue
			}
			if !bytes.Equal(h, b[:80]) {
				fmt.Fprintf(&sb, "b%d HEADER-MISMATCH\n", i)
				continue
			}
			if !bytes.Equal(b, s.wl.raw[i]) {
				fmt.Fprintf(&sb, "b%d CORRUPT %s\n", i, encBytes(b))
				continue
			}
			fmt.Fprintf(&sb, "b%d %s\n", i, encBytes(b))
		}
		return nil
	})
	return sb.String(), err
}

// modelDump returns the dump of the model after its first n commits.
func (s *sim) modelDump(n int) string {
	if s.dumpCache == nil {
		s.dumpCache = map[int]string{}
	}
	if d, ok := s.dumpCache[n]; ok {
		return d
	}
	var d string
	var err error
	if n == s.model.Commits() {
		d, err = s.dump(s.model)
	} else {
		d, err = s.dump(s.model.CrashPrefix(n))
	}
	if err != nil {
		panic("storesim: model dump failed: " + err.Error())
	}
	s.dumpCache[n] = d
	return d
}

// adopt makes the model the state after its first n commits.
func (s *sim) adopt(n int) {
	if n == s.model.Commits() {
		return
	}
	s.model = s.model.CrashPrefix(n)
	for k := range s.dumpCache {
		if k > n {
			delete(s.dumpCache, k)
		}
	}
	if s.durable > n {
		s.durable = n
	}
}

func firstDiff(a, b string) string {
	la, lb := strings.Split(a, "\n"), strings.Split(b, "\n")
	inA, inB := map[string]bool{}, map[string]bool{}
	for _, l := range la {
		inA[l] = true
	}
	for _, l := range lb {
		inB[l] = true
	}
	var onlyA, onlyB []string
	for _, l := range la {
		if !inB[l] && len(onlyA) < 6 {
			onlyA = append(onlyA, l)
		}
	}
	for _, l := range lb {
		if !inA[l] && len(onlyB) < 6 {
			onlyB = append(onlyB, l)
		}
	}
	if len(onlyA) == 0 && len(onlyB) == 0 {
		return "equal as sets of lines (order differs)"
	}
	return fmt.Sprintf("only in the store %q / only in the model %q", onlyA, onlyB)
}

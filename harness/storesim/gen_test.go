package storesim

import (
	"fmt"
	"time"

	"github.com/btcsuite/btcd/btcutil/v2"
	"github.com/btcsuite/btcd/chainhash/v2"
	"github.com/btcsuite/btcd/wire/v2"

	"verif/harness/simkit"
)

// ---------------------------------------------------------------------------
// workload description (pure data, generated up front from the Chooser so
// that the same workload can be executed again under a different fault)

type stepKind int

const (
	stTx stepKind = iota
	stReopen
	stAdvance
)

type endKind int

const (
	endCommit endKind = iota
	endRollback
	endFnErr // managed only: the user function returns an error
)

type opKind int

const (
	opPut opKind = iota
	opGet
	opDel
	opCreate
	opCreateINE
	opDelBucket
	opBucket
	opForEach
	opForEachBucket
	opCursor
	opStore
	opHas
	opHasMany
	opFetch
	opFetchMany
	opHeader
	opHeaders
	opRegion
	opRegions
	opPrune
	opBeenPruned
	numOpKinds
)

var opNames = [...]string{"put", "get", "del", "mkb", "mkb?", "rmb", "bkt", "each", "eachb", "cur", "store", "has",
	"hasN", "fetch", "fetchN", "hdr", "hdrN", "reg", "regN", "prune", "pruned?"}

type curKind int

const (
	cFirst curKind = iota
	cNext
	cLast
	cPrev
	cSeek
	cDelete
)

var curNames = [...]string{"F", "N", "L", "P", "S", "D"}

type curStep struct {
	kind curKind
	seek string
}

type region struct {
	blk      int
	off, len uint32
}

type txOp struct {
	kind   opKind
	path   []string
	key    string
	val    []byte // nil value = "no value assigned"
	blk    int
	blks   []int
	regs   []region
	target uint64
	cur    []curStep
	stopAt int // ForEach: user function returns an error at this item (-1 = never)
}

type txStep struct {
	writable    bool
	managed     bool
	end         endKind
	ops         []txOp
	probeClosed bool
}

type step struct {
	kind stepKind
	tx   *txStep
	adv  time.Duration
	// stReopen: also probe the closed database
	probeClosed bool
}

type workload struct {
	blocks    []*btcutil.Block
	raw       [][]byte
	hashes    []chainhash.Hash
	steps     []step
	maxFile   uint32
	cacheMax  uint64
	flushSecs uint32
	nOps      int
	knobClass string
	warmup    bool // Close+Open right after creation, before the workload
}

var (
	keyNames    = []string{"k0", "k1", "k2", "k3", "k4", "k10"}
	bucketNames = []string{"n0", "n1", "n2"}
	seekKeys    = []string{"", "k", "k1", "k2", "k3", "k5", "m", "n1", "z"}
)

// makeBlock builds a valid wire.MsgBlock serialization of roughly size bytes
// (>= 81) with a unique header.
func makeBlock(c simkit.Chooser, idx int, size int) *btcutil.Block {
	var prev, merkle chainhash.Hash
	copy(prev[:], c.Bytes(32, "blk-prev"))
	copy(merkle[:], c.Bytes(32, "blk-merkle"))
	hdr := wire.BlockHeader{
		Version: int32(idx + 1), PrevBlock: prev, MerkleRoot: merkle,
		Timestamp: time.Unix(1231006505+int64(idx)*600, 0), Bits: 0x207fffff, Nonce: uint32(0xb10c0000 + idx),
	}
	msg := wire.NewMsgBlock(&hdr)
	remain := size - 81
	for n := 0; remain >= 61 && n < 4; n++ {
		per := remain
		if n < 3 && remain > 200 {
			per = remain / 2
		}
		script := per - 61
		if script < 0 {
			script = 0
		}
		if script > 1500 {
			script = 1500
		}
		tx := wire.NewMsgTx(2)
		var ph chainhash.Hash
		ph[0], ph[1], ph[2] = byte(idx), byte(n), 0x77
		sig := make([]byte, script)
		for i := range sig {
			sig[i] = byte(idx*31 + n*7 + i)
		}
		tx.AddTxIn(wire.NewTxIn(wire.NewOutPoint(&ph, uint32(n)), sig, nil))
		tx.AddTxOut(wire.NewTxOut(int64(5000+idx), []byte{0x51}))
		_ = msg.AddTransaction(tx)
		remain -= tx.SerializeSize()
	}
	return btcutil.NewBlock(msg)
}

type genState struct {
	c       simkit.Chooser
	wl      *workload
	paths   [][]string // bucket paths the generator believes exist ([] = root)
	nextBlk int
	valCtr  int
	bigVals bool
	nilVals bool
	overrun bool
	blocky  bool
}

func (g *genState) pickPath() []string {
	// mostly an existing path, sometimes a random (possibly absent) one
	if len(g.paths) > 0 && !g.c.Bool(100, "path-random") {
		return g.paths[g.c.Intn(len(g.paths), "path")]
	}
	d := g.c.Intn(4, "path-depth")
	p := make([]string, d)
	for i := range p {
		p[i] = bucketNames[g.c.Intn(len(bucketNames), "path-name")]
	}
	return p
}

func (g *genState) value() []byte {
	g.valCtr++
	if g.nilVals && g.c.Bool(60, "val-empty") {
		if g.c.Bool(500, "val-nil") {
			return nil
		}
		return []byte{}
	}
	v := fmt.Sprintf("v%d", g.valCtr)
	if g.bigVals {
		pad := g.c.Intn(4, "val-pad") * 97
		b := make([]byte, 0, len(v)+pad+1)
		b = append(b, v...)
		for i := 0; i < pad; i++ {
			b = append(b, byte('a'+(g.valCtr+i)%26))
		}
		return b
	}
	return []byte(v)
}

func (g *genState) blockIdx(preferNew bool) int {
	n := len(g.wl.blocks)
	if preferNew && g.nextBlk < n && !g.c.Bool(120, "blk-old") {
		i := g.nextBlk
		g.nextBlk++
		return i
	}
	return g.c.Intn(n, "blk")
}

func (g *genState) genRegion() region {
	b := g.blockIdx(false)
	l := uint32(len(g.wl.raw[b]))
	switch simkit.Pick(g.c, "reg-class", 6, 2, 2, 1) {
	case 0: // inside
		off := uint32(g.c.Intn(int(l), "reg-off"))
		ln := uint32(g.c.Intn(int(l-off)+1, "reg-len"))
		return region{b, off, ln}
	case 1: // exactly to the end / whole block
		off := uint32(g.c.Intn(int(l), "reg-off"))
		return region{b, off, l - off}
	case 2: // far out of range
		off := uint32(g.c.Intn(int(l)+1, "reg-off"))
		return region{b, off, l - off + 13 + uint32(g.c.Intn(4000, "reg-over"))}
	default: // out of range by 1..12 bytes (the record trailer window)
		if !g.overrun {
			return region{b, 0, l}
		}
		off := uint32(g.c.Intn(int(l)+1, "reg-off"))
		return region{b, off, l - off + 1 + uint32(g.c.Intn(12, "reg-over12"))}
	}
}

func (g *genState) genCursor(writable bool) []curStep {
	n := simkit.Range(g.c, 1, 10, "cur-len")
	out := make([]curStep, 0, n)
	// a cursor must be positioned first
	switch g.c.Intn(3, "cur-start") {
	case 0:
		out = append(out, curStep{kind: cFirst})
	case 1:
		out = append(out, curStep{kind: cLast})
	default:
		out = append(out, curStep{kind: cSeek, seek: seekKeys[g.c.Intn(len(seekKeys), "cur-seek")]})
	}
	for len(out) < n {
		w := []int{2, 8, 2, 5, 2, 0}
		if writable {
			w[5] = 3
		}
		k := curKind(simkit.Pick(g.c, "cur-step", w...))
		st := curStep{kind: k}
		if k == cSeek {
			st.seek = seekKeys[g.c.Intn(len(seekKeys), "cur-seek")]
		}
		out = append(out, st)
	}
	return out
}

func (g *genState) genOp(writable bool, pruned *bool) txOp {
	var w [numOpKinds]int
	// reads (allowed everywhere)
	w[opGet], w[opBucket], w[opForEach], w[opForEachBucket], w[opCursor] = 6, 1, 3, 2, 5
	w[opHas], w[opHasMany], w[opFetch], w[opFetchMany], w[opHeader], w[opHeaders], w[opRegion], w[opRegions] = 2, 1, 3, 1, 2, 1, 3, 1
	w[opBeenPruned] = 1
	if writable {
		w[opPut], w[opDel], w[opCreate], w[opCreateINE], w[opDelBucket], w[opStore], w[opPrune] = 14, 4, 4, 2, 2, 8, 2
		if g.blocky {
			w[opStore], w[opPrune], w[opPut] = 24, 6, 8
		}
		if *pruned {
			w[opPrune] = 0
		}
	} else {
		// contract probes: writes against a read-only transaction
		w[opPut], w[opDel], w[opCreate], w[opDelBucket], w[opStore], w[opPrune] = 1, 1, 1, 1, 1, 1
	}
	k := opKind(simkit.Pick(g.c, "op", w[:]...))
	o := txOp{kind: k, stopAt: -1}
	switch k {
	case opPut:
		o.path = g.pickPath()
		o.key = keyNames[g.c.Intn(len(keyNames), "key")]
		if g.c.Bool(15, "key-empty") {
			o.key = ""
		}
		o.val = g.value()
	case opGet, opDel:
		o.path = g.pickPath()
		o.key = keyNames[g.c.Intn(len(keyNames), "key")]
		if k == opGet && g.c.Bool(15, "key-empty") {
			o.key = ""
		}
	case opCreate, opCreateINE:
		o.path = g.pickPath()
		if len(o.path) >= 3 {
			o.path = o.path[:2]
		}
		o.key = bucketNames[g.c.Intn(len(bucketNames), "bname")]
		if g.c.Bool(20, "bname-empty") {
			o.key = ""
		} else if writable {
			np := append(append([]string{}, o.path...), o.key)
			g.paths = append(g.paths, np)
		}
	case opDelBucket, opBucket:
		o.path = g.pickPath()
		o.key = bucketNames[g.c.Intn(len(bucketNames), "bname")]
	case opForEach:
		o.path = g.pickPath()
		if g.c.Bool(100, "each-stop") {
			o.stopAt = g.c.Intn(3, "each-stop-at")
		}
	case opForEachBucket:
		o.path = g.pickPath()
		if g.c.Bool(100, "each-stop") {
			o.stopAt = g.c.Intn(2, "each-stop-at")
		}
	case opCursor:
		o.path = g.pickPath()
		o.cur = g.genCursor(writable)
	case opStore:
		o.blk = g.blockIdx(true)
	case opHas, opFetch, opHeader:
		o.blk = g.blockIdx(false)
	case opHasMany, opFetchMany, opHeaders:
		n := simkit.Range(g.c, 0, 4, "many")
		for i := 0; i < n; i++ {
			o.blks = append(o.blks, g.blockIdx(false))
		}
	case opRegion:
		o.regs = []region{g.genRegion()}
	case opRegions:
		n := simkit.Range(g.c, 0, 4, "many")
		for i := 0; i < n; i++ {
			o.regs = append(o.regs, g.genRegion())
		}
	case opPrune:
		*pruned = true
		m := uint64(g.wl.maxFile)
		switch simkit.Pick(g.c, "prune-target", 6, 3, 1, 1) {
		case 0:
			o.target = m
		case 1:
			o.target = m * uint64(2+g.c.Intn(3, "prune-mult"))
		case 2:
			o.target = m + uint64(g.c.Intn(int(m), "prune-add"))
		default:
			o.target = uint64(g.c.Intn(int(m), "prune-small")) // below one file: refused
		}
	}
	return o
}

// genWorkload draws a whole workload.  profile biases it: "" general, "blocks"
// towards block storage, roll-over and pruning.
func genWorkload(c simkit.Chooser, maxOps int) *workload {
	wl := &workload{}
	g := &genState{c: c, wl: wl, paths: [][]string{{}}}

	// block universe
	g.blocky = c.Bool(350, "profile-blocky")
	nb := simkit.Range(c, 4, 12, "nblocks")
	if g.blocky && nb < 8 {
		nb = 8
	}
	maxRec := 0
	for i := 0; i < nb; i++ {
		var size int
		switch simkit.Pick(c, "blk-size", 2, 5, 2, 1) {
		case 0:
			size = 81
		case 1:
			size = 81 + c.Intn(400, "blk-small")
		case 2:
			size = 500 + c.Intn(1500, "blk-mid")
		default:
			size = 2000 + c.Intn(2100, "blk-big")
		}
		b := makeBlock(c, i, size)
		raw, err := b.Bytes()
		if err != nil {
			panic(err)
		}
		wl.blocks = append(wl.blocks, b)
		wl.raw = append(wl.raw, raw)
		wl.hashes = append(wl.hashes, *b.Hash())
		if len(raw)+12 > maxRec {
			maxRec = len(raw) + 12
		}
	}

	// knobs
	fw := []int{3, 3, 3, 2}
	if g.blocky {
		fw = []int{0, 4, 4, 1}
		wl.knobClass = "blocky/"
	}
	switch simkit.Pick(c, "knob-file", fw...) {
	case 0:
		wl.maxFile = 1 << 20
		wl.knobClass += "fileHuge"
	case 1:
		wl.maxFile = uint32(maxRec) // one (large) block per file
		wl.knobClass += "fileOne"
	case 2:
		wl.maxFile = uint32(maxRec + c.Intn(2*maxRec, "file-extra"))
		wl.knobClass += "fileFew"
	default:
		wl.maxFile = uint32(maxRec * (3 + c.Intn(4, "file-mult")))
		wl.knobClass += "fileSome"
	}
	switch simkit.Pick(c, "knob-cache", 3, 3, 3, 2) {
	case 0:
		wl.cacheMax = 100 << 20 // never by size
		wl.knobClass += "/cacheNever"
	case 1:
		wl.cacheMax = 0 // every commit that finds the cache non-empty
		wl.knobClass += "/cacheEvery"
	case 2:
		wl.cacheMax = uint64(200 + c.Intn(800, "cache-small"))
		wl.knobClass += "/cacheSmall"
		g.bigVals = true
	default:
		wl.cacheMax = uint64(1000 + c.Intn(4000, "cache-mid"))
		wl.knobClass += "/cacheMid"
		g.bigVals = true
	}
	switch simkit.Pick(c, "knob-flush", 3, 2) {
	case 0:
		wl.flushSecs = 300
		wl.knobClass += "/int300"
	default:
		wl.flushSecs = uint32(1 + c.Intn(20, "flush-secs"))
		wl.knobClass += "/intShort"
	}
	wl.warmup = !c.Bool(300, "knob-no-warmup")
	if !wl.warmup {
		wl.knobClass += "/cold"
	}
	g.nilVals = c.Bool(150, "knob-nilvals")
	g.overrun = c.Bool(250, "knob-overrun")

	// steps
	total := simkit.Range(c, 5, maxOps, "nops")
	for wl.nOps < total {
		switch simkit.Pick(c, "step", 14, 2, 3) {
		case 1:
			wl.steps = append(wl.steps, step{kind: stReopen, probeClosed: c.Bool(200, "probe-closed-db")})
			wl.nOps++
		case 2:
			var d time.Duration
			switch simkit.Pick(c, "adv", 3, 3, 2) {
			case 0:
				d = time.Duration(1+c.Intn(5, "adv-s")) * time.Second
			case 1:
				d = time.Duration(wl.flushSecs)*time.Second + time.Duration(1+c.Intn(3, "adv-over"))*time.Second
			default:
				d = time.Duration(5+c.Intn(40, "adv-m")) * time.Minute
			}
			wl.steps = append(wl.steps, step{kind: stAdvance, adv: d})
			wl.nOps++
		default:
			ts := &txStep{}
			ts.writable = !c.Bool(300, "tx-readonly")
			ts.managed = c.Bool(500, "tx-managed")
			switch simkit.Pick(c, "tx-end", 8, 2, 1) {
			case 0:
				ts.end = endCommit
			case 1:
				ts.end = endRollback
			default:
				ts.end = endFnErr
				if !ts.managed {
					ts.end = endRollback
				}
			}
			if !ts.writable && ts.end == endCommit {
				ts.end = endRollback
			}
			ts.probeClosed = c.Bool(150, "probe-closed-tx")
			n := simkit.Range(c, 1, 8, "tx-ops")
			savedPaths := len(g.paths)
			savedNext := g.nextBlk
			pruned := false
			for i := 0; i < n; i++ {
				ts.ops = append(ts.ops, g.genOp(ts.writable, &pruned))
			}
			if ts.end != endCommit {
				g.paths = g.paths[:savedPaths]
				g.nextBlk = savedNext
			}
			wl.steps = append(wl.steps, step{kind: stTx, tx: ts})
			wl.nOps += n
		}
	}
	return wl
}

func (wl *workload) sigTokens() []string {
	var out []string
	out = append(out, wl.knobClass)
	for _, s := range wl.steps {
		switch s.kind {
		case stReopen:
			out = append(out, "reopen")
		case stAdvance:
			if s.adv > time.Duration(wl.flushSecs)*time.Second {
				out = append(out, "advOver")
			} else {
				out = append(out, "adv")
			}
		case stTx:
			t := "tx"
			if s.tx.writable {
				t += "W"
			} else {
				t += "R"
			}
			if s.tx.managed {
				t += "m"
			}
			t += fmt.Sprint(int(s.tx.end))
			seen := map[opKind]bool{}
			for _, o := range s.tx.ops {
				if !seen[o.kind] {
					seen[o.kind] = true
				}
			}
			for k := opKind(0); k < numOpKinds; k++ {
				if seen[k] {
					t += "," + opNames[k]
				}
			}
			out = append(out, t)
		}
	}
	return out
}

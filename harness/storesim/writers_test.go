package storesim

import (
	"fmt"
	"runtime"
	"strconv"
	"time"

	"github.com/btcsuite/btcd/database"
	"github.com/btcsuite/btcd/database/ffldb"

	"verif/harness/simfs"
	"verif/harness/simkit"
)

// Oracle 5: writers are serialised.  Several caller goroutines open write
// transactions; each one is started while the previous one is parked INSIDE
// its transaction (so the newcomer has to wait for the store's write lock),
// reads a counter, parks, increments it, creates a bucket of its own and
// commits or rolls back.  What every writer saw at its start must be exactly
// what the writers that committed before it left: no stale snapshot, no lost
// update, no bucket of one writer holding another writer's key.
//
// Only one goroutine waits for the write lock at any time, so the order of
// the transactions does not depend on the runtime's mutex hand-off; writers
// never log (the driver does, after joining them), so the event log of a
// correct store is the same in every run of the seed.

type wrActor struct {
	idx     int
	turn    chan struct{}
	done    chan any // nil = parked or finished, otherwise a panic value
	pre     int    // counter value seen at the start of the transaction
	preErr  error
	err     error // result of Update / Commit
	abort   bool
	manual  bool
	bucket  bool
	cursor  bool
	seenOwn []string // keys found in the writer's own bucket right after creating it
}

func runWriters(r *simkit.Run) {
	c := r.C
	var cacheMax uint64
	switch simkit.Pick(c, "wr-cache", 2, 3, 3) {
	case 0:
		cacheMax = 100 << 20
	case 1:
		cacheMax = 0
	default:
		cacheMax = uint64(100 + c.Intn(600, "wr-cache-size"))
	}
	flushSecs := uint32(2 + c.Intn(30, "wr-flush-secs"))
	r.Meta["cache"] = fmt.Sprint(cacheMax)

	fs := simfs.New()
	ffldb.SetVerifFS(fs.FFLDB(simfs.DeterministicLevelDB))
	db, err := database.Create("ffldb", dbPath, netID)
	if err != nil {
		panic("storesim: create: " + err.Error())
	}
	// until every writer has finished a transaction may be open (a violation
	// ends the run early): Close would wait for it
	finished := false
	defer func() {
		if finished {
			_ = db.Close()
		}
		ffldb.VerifForget(db)
	}()
	ffldb.VerifSetCacheParams(db, cacheMax, flushSecs)

	ctr := []byte("ctr")
	if err := db.Update(func(tx database.Tx) error {
		b, err := tx.Metadata().CreateBucket(ctr)
		if err != nil {
			return err
		}
		return b.Put([]byte("n"), []byte("0"))
	}); err != nil {
		panic("storesim: writers setup: " + err.Error())
	}

	nW := simkit.Range(c, 2, 5, "wr-writers")
	actors := make([]*wrActor, nW)
	for i := range actors {
		a := &wrActor{idx: i, turn: make(chan struct{}), done: make(chan any),
			abort: c.Bool(200, "wr-abort"), manual: c.Bool(500, "wr-manual"), bucket: c.Bool(600, "wr-bucket"), cursor: c.Bool(400, "wr-cursor")}
		actors[i] = a
		go func() {
			defer func() {
				if p := recover(); p != nil {
					a.done <- p
				}
			}()
			<-a.turn
			body := func(tx database.Tx) error {
				b := tx.Metadata().Bucket(ctr)
				var raw []byte
				if a.cursor {
					cu := b.Cursor()
					for ok := cu.First(); ok; ok = cu.Next() {
						if string(cu.Key()) == "n" {
							raw = append([]byte(nil), cu.Value()...)
						}
					}
				} else {
					raw = b.Get([]byte("n"))
				}
				a.pre, a.preErr = strconv.Atoi(string(raw))
				// park inside the transaction, holding the write lock
				a.done <- nil
				<-a.turn
				if err := b.Put([]byte("n"), []byte(strconv.Itoa(a.pre+1))); err != nil {
					return err
				}
				if err := b.Put([]byte(fmt.Sprintf("w%d", a.idx)), []byte(strconv.Itoa(a.pre))); err != nil {
					return err
				}
				if a.bucket {
					nb, err := tx.Metadata().CreateBucket([]byte(fmt.Sprintf("own%d", a.idx)))
					if err != nil {
						return err
					}
					if err := nb.Put([]byte(fmt.Sprintf("mine%d", a.idx)), []byte{1}); err != nil {
						return err
					}
				}
				if a.abort {
					return errFn
				}
				return nil
			}
			if a.manual {
				tx, err := db.Begin(true)
				if err == nil {
					if err = body(tx); err != nil {
						_ = tx.Rollback()
					} else {
						err = tx.Commit()
					}
				}
				a.err = err
			} else {
				a.err = db.Update(body)
			}
			a.done <- nil
		}()
	}

	join := func(a *wrActor) {
		if p := <-a.done; p != nil {
			panic(p)
		}
	}
	// the first writer enters its transaction and parks there
	actors[0].turn <- struct{}{}
	join(actors[0])
	committed := 0
	for i, a := range actors {
		r.Event("w-inside", "writer %d saw n=%d (%d committed before) err=%v", a.idx, a.pre, committed, a.preErr)
		if a.preErr != nil || a.pre != committed {
			r.Violate(prop, "writers-serialised", "", "writer %d started its write transaction after %d commits but read counter %d (err=%v): stale snapshot", a.idx, committed, a.pre, a.preErr)
		}
		var next *wrActor
		if i+1 < len(actors) {
			// the next writer asks for a write transaction while this one
			// is still open: it has to wait for the write lock
			next = actors[i+1]
			next.turn <- struct{}{}
			for k := 0; k < 200; k++ {
				runtime.Gosched()
			}
		}
		if c.Bool(150, "wr-advance") {
			// (only possible while nobody waits on the lock: a goroutine
			// blocked on a mutex stops the simulated clock)
			if next == nil {
				time.Sleep(time.Duration(1+c.Intn(40, "wr-adv-s")) * time.Second)
			}
		}
		a.turn <- struct{}{}
		join(a)
		switch {
		case a.abort && a.err != errFn:
			r.Violate(prop, "writers-serialised", "", "writer %d rolled back but got %v", a.idx, a.err)
		case !a.abort && a.err != nil:
			r.Violate(prop, "writers-serialised", "", "writer %d failed to commit: %v", a.idx, a.err)
		}
		if !a.abort {
			committed++
		}
		r.Event("w-end", "writer %d abort=%v manual=%v -> %d committed", a.idx, a.abort, a.manual, committed)
		if next != nil {
			join(next) // it got the lock and is parked inside its transaction
		}
	}

	finished = true

	// final state
	err = db.View(func(tx database.Tx) error {
		b := tx.Metadata().Bucket(ctr)
		n, _ := strconv.Atoi(string(b.Get([]byte("n"))))
		if n != committed {
			r.Violate(prop, "writers-serialised", "", "%d writers committed an increment but the counter is %d: lost update", committed, n)
		}
		for _, a := range actors {
			v := b.Get([]byte(fmt.Sprintf("w%d", a.idx)))
			if (v != nil) != !a.abort {
				r.Violate(prop, "writers-serialised", "", "writer %d (abort=%v): its marker key present=%v", a.idx, a.abort, v != nil)
			}
			ob := tx.Metadata().Bucket([]byte(fmt.Sprintf("own%d", a.idx)))
			want := a.bucket && !a.abort
			if (ob != nil) != want {
				r.Violate(prop, "writers-serialised", "", "writer %d (abort=%v bucket=%v): own bucket present=%v", a.idx, a.abort, a.bucket, ob != nil)
			}
			if ob != nil {
				var keys []string
				_ = ob.ForEach(func(k, v []byte) error { keys = append(keys, string(k)); return nil })
				if len(keys) != 1 || keys[0] != fmt.Sprintf("mine%d", a.idx) {
					r.Violate(prop, "writers-serialised", "", "bucket of writer %d holds %v: bucket ids collided", a.idx, keys)
				}
			}
		}
		return nil
	})
	if err != nil {
		r.Violate(prop, "writers-serialised", "", "final view: %v", err)
	}
	r.Count("writer_transactions", nW)
	r.Probe("writer_waited_for_write_lock")
	r.State("writers n=%d committed=%d", nW, committed)
	r.NonTrivial()
}

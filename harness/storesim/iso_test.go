package storesim

import (
	"bytes"
	"fmt"
	"sort"
	"strings"
	"time"

	"github.com/anishathalye/porcupine"
	"github.com/btcsuite/btcd/database"
	"github.com/btcsuite/btcd/database/ffldb"

	"verif/harness/simfs"
	"verif/harness/simkit"
)

// Oracle 4: snapshot isolation.  One writer commits versions of a small key
// set (and stores one block per version) while R readers hold View / read-only
// Begin snapshots.  Every goroutine waits for its turn on a harness channel
// between its own steps, so the interleaving is chosen by the Chooser and is
// replayable.  No step of this workload can block on another actor: there is
// one writer, readers never wait for it, and nobody closes the store.

type isoActor struct {
	name string
	turn chan struct{}
	done chan isoDone
}

type isoDone struct {
	fin bool
	p   any // a panic raised on the actor's goroutine (re-raised on the driver)
}

type isoOp struct {
	write   bool
	version int
	call    int
	ret     int
	client  int
}

type isoWorld struct {
	r       *simkit.Run
	db      database.DB
	wl      *workload
	keys    []string
	nVers   int
	aborted map[int]bool
	commitV int // last committed version (writer's commit step finished)
	ops     []isoOp
	bucket  []byte
	storeAt map[int]int // version -> block index stored in it
	// straddle mode: a reader parks right after Begin and the scheduler lets
	// the writer finish a commit before the reader's first read
	straddle bool
	waiting  int
	waitFrom int
	// beginPark, when set, is called once from the store's yield point inside
	// Begin (the reader's own yield function)
	beginPark func()
}

// expected returns the key -> value map of version v.
func (w *isoWorld) expected(v int) map[string]string {
	m := map[string]string{}
	if v == 0 {
		return m
	}
	for j, k := range w.keys {
		if j > 0 && (v+j)%4 == 0 {
			continue // deleted in this version
		}
		m[k] = fmt.Sprintf("ver%d-%s", v, k)
	}
	return m
}

func (w *isoWorld) blocksAt(v int) []int {
	var out []int
	for ver, b := range w.storeAt {
		if ver <= v {
			out = append(out, b)
		}
	}
	sort.Ints(out)
	return out
}

func encMap(m map[string]string) string {
	ks := make([]string, 0, len(m))
	for k := range m {
		ks = append(ks, k)
	}
	sort.Strings(ks)
	var sb strings.Builder
	for _, k := range ks {
		sb.WriteString(k + "=" + m[k] + " ")
	}
	return sb.String()
}

// versionOf finds the version whose expected content equals the observation.
func (w *isoWorld) versionOf(obs map[string]string) int {
	e := encMap(obs)
	for v := 0; v <= w.nVers; v++ {
		if encMap(w.expected(v)) == e {
			return v
		}
	}
	return -1
}

// readAll observes the key set through one of several access paths.
func (w *isoWorld) readAll(tx database.Tx, how int) (map[string]string, string) {
	b := tx.Metadata().Bucket(w.bucket)
	obs := map[string]string{}
	if b == nil {
		return obs, "nobucket"
	}
	switch how {
	case 0:
		for _, k := range w.keys {
			if v := b.Get([]byte(k)); v != nil {
				obs[k] = string(v)
			}
		}
		return obs, "get"
	case 1:
		c := b.Cursor()
		var order []string
		for ok := c.First(); ok; ok = c.Next() {
			obs[string(c.Key())] = string(c.Value())
			order = append(order, string(c.Key()))
			if len(order) > 4*len(w.keys)+16 {
				break // a cycle in a damaged snapshot
			}
		}
		if !strictlyAscending(order) {
			w.r.Violate(prop, "cursor-order", "", "forward cursor walk of a snapshot not in strictly ascending byte order: %v", order)
		}
		return obs, "cursor-fwd"
	case 2:
		c := b.Cursor()
		var order []string
		for ok := c.Last(); ok; ok = c.Prev() {
			obs[string(c.Key())] = string(c.Value())
			order = append(order, string(c.Key()))
		}
		rev := append([]string(nil), order...)
		for i, j := 0, len(rev)-1; i < j; i, j = i+1, j-1 {
			rev[i], rev[j] = rev[j], rev[i]
		}
		if !strictlyAscending(rev) {
			w.r.Violate(prop, "cursor-order", "", "backward cursor walk out of byte order: %v", order)
		}
		return obs, "cursor-back"
	default:
		var order []string
		_ = b.ForEach(func(k, v []byte) error {
			obs[string(k)] = string(v)
			order = append(order, string(k))
			return nil
		})
		if !strictlyAscending(order) {
			w.r.Violate(prop, "cursor-order", "", "ForEach out of byte order: %v", order)
		}
		return obs, "foreach"
	}
}

func strictlyAscending(keys []string) bool {
	for i := 1; i < len(keys); i++ {
		if keys[i-1] >= keys[i] {
			return false
		}
	}
	return true
}

// readBlocks observes which version blocks exist and checks their bytes.
func (w *isoWorld) readBlocks(tx database.Tx) []int {
	var have []int
	oks, err := tx.HasBlocks(w.wl.hashes)
	if err != nil {
		w.r.Violate(prop, "isolation", "", "HasBlocks failed in a reader: %v", err)
	}
	for i, ok := range oks {
		if !ok {
			continue
		}
		have = append(have, i)
		b, err := tx.FetchBlock(&w.wl.hashes[i])
		if err != nil || !bytes.Equal(b, w.wl.raw[i]) {
			w.r.Violate(prop, "byte-fidelity", "", "reader fetched block %d: err=%v equal=%v", i, err, bytes.Equal(b, w.wl.raw[i]))
		}
	}
	return have
}

func runIsolation(r *simkit.Run) {
	c := r.C
	wl := genWorkload(simkit.NewReplayChooser(nil), 5) // fixed tiny block universe: all-zero choices
	// knobs that make commits flush while readers hold snapshots
	switch simkit.Pick(c, "iso-cache", 2, 3, 3) {
	case 0:
		wl.cacheMax = 100 << 20
	case 1:
		wl.cacheMax = 0
	default:
		wl.cacheMax = uint64(100 + c.Intn(600, "iso-cache-size"))
	}
	wl.flushSecs = uint32(2 + c.Intn(30, "iso-flush-secs"))
	if c.Bool(500, "iso-smallfiles") {
		wl.maxFile = uint32(len(wl.raw[0]) + 12 + c.Intn(300, "iso-file"))
	} else {
		wl.maxFile = 1 << 20
	}
	r.Meta["cache"] = fmt.Sprint(wl.cacheMax)

	fs := simfs.New()
	ffldb.SetVerifFS(fs.FFLDB(simfs.DeterministicLevelDB))
	db, err := database.Create("ffldb", dbPath, netID)
	if err != nil {
		panic("storesim: create: " + err.Error())
	}
	aborted := false
	defer func() {
		if !aborted { // after an abort transactions are left open: Close would wait for them
			_ = db.Close()
		}
		ffldb.VerifForget(db)
	}()
	ffldb.VerifSetCacheParams(db, wl.cacheMax, wl.flushSecs)
	ffldb.VerifSetMaxBlockFileSize(db, wl.maxFile)

	w := &isoWorld{r: r, db: db, wl: wl, aborted: map[int]bool{}, bucket: []byte("iso"), storeAt: map[int]int{}}
	nk := simkit.Range(c, 2, 5, "iso-keys")
	if c.Bool(350, "iso-many-keys") {
		// a cache treap deep enough for deletions that rotate a node down
		// through several levels while readers still hold the old root
		nk = simkit.Range(c, 12, 60, "iso-key-count")
		r.Sig("iso-many")
		if c.Bool(600, "iso-many-cached") {
			// keep the versions in the cache treaps (no flush at commit)
			wl.cacheMax = 100 << 20
			ffldb.VerifSetCacheParams(db, wl.cacheMax, wl.flushSecs)
			r.Meta["cache"] = fmt.Sprint(wl.cacheMax)
		}
	}
	for j := 0; j < nk; j++ {
		w.keys = append(w.keys, fmt.Sprintf("k%02d", j))
	}
	w.nVers = simkit.Range(c, 2, 8, "iso-versions")
	nReaders := simkit.Range(c, 1, 3, "iso-readers")
	ffldb.VerifYield = func(site string) {
		if f := w.beginPark; f != nil && site == "snapshot.afterLdbSnapshot" {
			w.beginPark = nil
			if !ffldb.VerifCacheLockFree(db) {
				// the store holds its cache lock across the two snapshot
				// steps: nothing can run in between, and parking here would
				// only block the writer on a mutex
				r.Probe("begin_park_skipped_lock_held")
				return
			}
			f()
		}
	}
	defer func() { ffldb.VerifYield = nil }()
	w.straddle = c.Bool(400, "iso-straddle")
	if w.straddle {
		r.Sig("iso-straddle")
	}
	if err := db.Update(func(tx database.Tx) error {
		_, err := tx.Metadata().CreateBucket(w.bucket)
		return err
	}); err != nil {
		panic("storesim: iso setup: " + err.Error())
	}
	nextBlock := 0

	var actors []*isoActor
	newActor := func(name string, body func(yield func())) {
		a := &isoActor{name: name, turn: make(chan struct{}), done: make(chan isoDone)}
		actors = append(actors, a)
		go func() {
			defer func() {
				if p := recover(); p != nil {
					a.done <- isoDone{fin: true, p: p}
				}
			}()
			<-a.turn
			body(func() { a.done <- isoDone{}; <-a.turn })
			a.done <- isoDone{fin: true}
		}()
	}

	// the writer
	type wplan struct {
		abort  bool
		split  int // puts before an extra yield
		manual bool
		block  bool
	}
	plans := make([]wplan, w.nVers+1)
	for v := 1; v <= w.nVers; v++ {
		plans[v] = wplan{abort: c.Bool(150, "iso-abort"), split: c.Intn(nk+1, "iso-split"), manual: c.Bool(500, "iso-manual"),
			block: c.Bool(600, "iso-block")}
	}
	newActor("writer", func(yield func()) {
		first := true
		for v := 1; v <= w.nVers; v++ {
			p := plans[v]
			if !first {
				yield()
			}
			first = false
			call := r.Event("w-begin", "version %d abort=%v", v, p.abort)
			body := func(tx database.Tx) error {
				b := tx.Metadata().Bucket(w.bucket)
				exp := w.expected(v)
				for j, k := range w.keys {
					if j == p.split {
						yield() // readers run while the transaction has pending keys
					}
					val, ok := exp[k]
					if p.abort {
						val, ok = fmt.Sprintf("aborted%d-%s", v, k), true
					}
					var err error
					if ok {
						err = b.Put([]byte(k), []byte(val))
					} else {
						err = b.Delete([]byte(k))
					}
					if err != nil {
						return err
					}
				}
				if p.block && nextBlock < len(wl.blocks) && !p.abort {
					if err := tx.StoreBlock(wl.blocks[nextBlock]); err != nil {
						return err
					}
				}
				yield() // before the commit
				if p.abort {
					return errFn
				}
				return nil
			}
			var err error
			if p.manual {
				var tx database.Tx
				tx, err = db.Begin(true)
				if err == nil {
					if err = body(tx); err != nil {
						_ = tx.Rollback()
					} else {
						err = tx.Commit()
					}
				}
			} else {
				err = db.Update(body)
			}
			if p.abort {
				if err != errFn {
					r.Violate(prop, "isolation", "", "aborted writer transaction returned %v", err)
				}
				r.Event("w-abort", "version %d", v)
				w.aborted[v] = true
				// an aborted version never becomes visible: re-commit it for real next
				p2 := p
				p2.abort = false
				plans[v] = p2
				v--
				continue
			}
			if err != nil {
				r.Violate(prop, "isolation", "", "writer commit of version %d failed: %v", v, err)
			}
			if p.block && nextBlock < len(wl.blocks) {
				w.storeAt[v] = nextBlock
				nextBlock++
			}
			w.commitV = v
			ret := r.Event("w-commit", "version %d", v)
			w.ops = append(w.ops, isoOp{write: true, version: v, call: call, ret: ret, client: 0})
		}
	})

	// the readers
	for ri := 0; ri < nReaders; ri++ {
		ri := ri
		nSnaps := simkit.Range(c, 1, 5, "iso-snaps")
		type rplan struct {
			managed bool
			reads   []int
		}
		var rp []rplan
		for s := 0; s < nSnaps; s++ {
			p := rplan{managed: c.Bool(500, "iso-view")}
			for n := simkit.Range(c, 1, 4, "iso-reads"); n > 0; n-- {
				p.reads = append(p.reads, c.Intn(5, "iso-read-kind"))
			}
			rp = append(rp, p)
		}
		newActor(fmt.Sprintf("reader%d", ri), func(yield func()) {
			for si, p := range rp {
				if si > 0 {
					yield()
				}
				call := r.Event("r-begin", "reader %d snapshot %d", ri, si)
				atBegin := -1
				atCall := w.commitV
				parkInBegin := w.straddle && c.Bool(500, "iso-park-in-begin")
				if parkInBegin {
					// park INSIDE Begin, between the store's two snapshot
					// steps, until the writer has committed (and perhaps
					// flushed): the snapshot may be the version before or
					// after that commit, nothing older and no mixture
					w.beginPark = yield
					w.waiting++
					w.waitFrom = w.commitV
					r.Probe("reader_parked_inside_begin")
				}
				body := func(tx database.Tx) error {
					if parkInBegin {
						parkInBegin = false
						w.waiting--
						w.beginPark = nil
					}
					atBegin = w.commitV // Begin returned: the snapshot is this version (or, parked, any since the call)
					if w.straddle {
						w.waiting++
						w.waitFrom = w.commitV
						yield()
						w.waiting--
					}
					seen := -1
					for i, how := range p.reads {
						if i > 0 {
							yield() // the writer may commit (and flush) in between
						}
						var v int
						var via string
						if how == 4 {
							have := w.readBlocks(tx)
							via = "blocks"
							v = -2
							for cand := 0; cand <= w.nVers; cand++ {
								if fmt.Sprint(w.blocksAt(cand)) == fmt.Sprint(have) && cand >= atCall && cand <= atBegin {
									v = cand
								}
							}
							if v == -2 {
								r.Violate(prop, "isolation", "", "reader %d snapshot taken at version %d sees blocks %v, expected %v",
									ri, atBegin, have, w.blocksAt(atBegin))
							}
						} else {
							obs, name := w.readAll(tx, how)
							via = name
							v = w.versionOf(obs)
							if v < 0 {
								r.Violate(prop, "isolation", "", "reader %d (%s) sees a mixture, no committed version: {%s} (snapshot taken at version %d)",
									ri, name, encMap(obs), atBegin)
							}
						}
						r.Event("r-read", "reader %d snap %d via %s -> version %d (store at %d)", ri, si, via, v, w.commitV)
						if v < atCall || v > atBegin {
							r.Violate(prop, "isolation", "", "reader %d snapshot taken between version %d and %d reads version %d via %s (store now at %d)",
								ri, atCall, atBegin, v, via, w.commitV)
						}
						if seen >= 0 && v != seen {
							r.Violate(prop, "isolation", "", "reader %d snapshot changed from version %d to %d", ri, seen, v)
						}
						seen = v
						if w.commitV > atBegin {
							r.Probe("snapshot_read_after_later_commit")
						}
					}
					return nil
				}
				var err error
				if p.managed {
					err = db.View(body)
				} else {
					var tx database.Tx
					tx, err = db.Begin(false)
					if err == nil {
						err = body(tx)
						_ = tx.Rollback()
					}
				}
				if err != nil {
					r.Violate(prop, "isolation", "", "reader %d: %v", ri, err)
				}
				ret := r.Event("r-end", "reader %d snapshot %d = version %d", ri, si, atBegin)
				w.ops = append(w.ops, isoOp{write: false, version: atBegin, call: call, ret: ret, client: 1 + ri})
			}
		})
	}

	// the scheduler: one actor step at a time, chosen by the Chooser; sometimes
	// the clock moves between steps (flush interval)
	alive := append([]*isoActor(nil), actors...)
	steps := 0
	for len(alive) > 0 {
		i := c.Intn(len(alive), "iso-sched")
		if w.straddle && w.waiting > 0 && w.commitV == w.waitFrom {
			for k, x := range alive {
				if x.name == "writer" {
					i = k
				}
			}
		}
		a := alive[i]
		a.turn <- struct{}{}
		d := <-a.done
		if d.p != nil {
			aborted = true
			panic(d.p)
		}
		if d.fin {
			alive = append(alive[:i], alive[i+1:]...)
		}
		steps++
		if c.Bool(120, "iso-advance") {
			time.Sleep(time.Duration(1+c.Intn(40, "iso-adv-s")) * time.Second)
		}
		if steps > 2000 {
			panic("storesim: isolation scheduler did not terminate")
		}
	}
	r.Count("iso_steps", steps)

	// final state == last version
	err = db.View(func(tx database.Tx) error {
		obs, _ := w.readAll(tx, 0)
		if v := w.versionOf(obs); v != w.nVers {
			r.Violate(prop, "isolation", "", "final state is version %d, expected %d: {%s}", v, w.nVers, encMap(obs))
		}
		return nil
	})
	if err != nil {
		r.Violate(prop, "isolation", "", "final view: %v", err)
	}

	// porcupine: the history of writer transactions and reader snapshots must
	// be linearizable against a single versioned register
	model := porcupine.Model{
		Init: func() interface{} { return 0 },
		Step: func(state, input, output interface{}) (bool, interface{}) {
			in := input.(isoOp)
			if in.write {
				return true, in.version
			}
			return output.(int) == state.(int), state
		},
		Equal: func(a, b interface{}) bool { return a.(int) == b.(int) },
	}
	var hist []porcupine.Operation
	for _, o := range w.ops {
		hist = append(hist, porcupine.Operation{ClientId: o.client, Input: o, Call: int64(o.call), Output: o.version, Return: int64(o.ret)})
	}
	if len(hist) > 40 {
		hist = hist[:40]
	}
	res := porcupine.CheckOperationsTimeout(model, hist, 30*time.Second)
	switch res {
	case porcupine.Ok:
		r.Count("porcupine_ok", 1)
	case porcupine.Illegal:
		r.Count("porcupine_illegal", 1)
		r.Violate(prop, "isolation-porcupine", "", "history of %d operations is not linearizable against the versioned register: %+v", len(hist), w.ops)
	default:
		r.Count("porcupine_unknown", 1)
	}
	r.Event("iso", "ops=%d porcupine=%v flushes=%d", len(hist), res, ffldb.VerifFlushCount(db))
	r.Sig(fmt.Sprintf("iso:r%d,v%s,c%s", nReaders, classN(w.nVers), classN(int(wl.cacheMax/200))))
	r.State("iso readers=%d versions=%d flushes=%s", nReaders, w.nVers, classN(int(ffldb.VerifFlushCount(db))))
	if w.commitV >= 1 {
		r.NonTrivial()
	}
}

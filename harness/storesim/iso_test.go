package storesim

import "verif/harness/simkit"

func runIsolation(r *simkit.Run) {
	r.Event("iso", "not implemented yet")
}

//go:debug randseednop=0
package peersim

// Engine peersim: one real peer.Peer against a scripted remote endpoint on a
// harness-owned connection, inside a synctest bubble.  Decides property C18.
// See /verif/DESIGN.md §4.3 and §5 C18.
//
// Stepping modes
//
//	event-stepped: one external event (deliver a chunk, advance the clock,
//	    one caller operation, remote close, ...) then synctest.Wait().
//	    Replayable.
//	yield: the guarded yield points in /repo/peer (build tag verif) park a
//	    goroutine inside a race window at a seeded site until a later seeded
//	    step releases it.  Replayable.
//	burst: several caller goroutines are released from one gate at once.  The
//	    relative order of their calls is the runtime's, so burst runs are NOT
//	    replayable; they are switched off when VERIF_MODE=determinism (the
//	    draw is still made so that choice lists have the same shape).

import (
	"fmt"
	"io"
	"math/rand"
	"net"
	"os"
	"runtime"
	"runtime/debug"
	"strconv"
	"strings"
	"sync"
	"sync/atomic"
	"syscall"
	"testing"
	"testing/cryptotest"
	"testing/synctest"
	"time"

	"github.com/btcsuite/btcd/chaincfg/v2"
	"github.com/btcsuite/btclog"
	"github.com/btcsuite/btcd/chainhash/v2"
	"github.com/btcsuite/btcd/peer"
	"github.com/btcsuite/btcd/wire/v2"

	"verif/harness/simconn"
	"verif/harness/simkit"
)

const prop = "C18"

// detMode: the determinism self-test is running (VERIF_MODE=determinism).
var detMode = os.Getenv("VERIF_MODE") == "determinism"

func TestWorker(t *testing.T) {
	simkit.WorkerMain(t, simkit.Options{
		Engine:       "peersim",
		LeakProperty: prop,
		LeakOracle:   "O5-goroutines-end",
		Real:         []string{"peer.Peer (negotiation, inHandler, outHandler, queueHandler, stallHandler, pingHandler)", "wire codec"},
		Stub:         []string{"remote endpoint script", "simconn", "application callers", "listeners"},
		Setup: func(t *testing.T) {
			// every second worker process runs the peer with trace logging
			// on (into the void): the log formatting helpers then run on the
			// peer's goroutines, under the race detector
			if w, _ := strconv.Atoi(os.Getenv("VERIF_WORKER")); w%2 == 1 {
				l := btclog.NewBackend(io.Discard).Logger("PEER")
				l.SetLevel(btclog.LevelTrace)
				peer.UseLogger(l)
			}
		},
	}, run)
}

type knobs struct {
	uaComments   []string
	inbound      bool
	localPV      uint32 // as configured (0: default)
	effPV        uint32 // effective local version
	witness      bool
	allowSelf    bool
	disableStall bool
	trickle      time.Duration
	params       *chaincfg.Params
	wcap         int
	chunkMode    int
	maxRead      int
	nCallers     int
	yieldMode    bool
	burst        bool
	tempo        int
	blockErr     bool
	remoteErr    int // how a remote close looks: 0 EOF, 1 reset (OpError), 2 EOF + broken pipe on write
}

type sim struct {
	r    *simkit.Run
	k    knobs
	p    *peer.Peer
	conn *simconn.Conn
	rm   *remote
	y    *yielder
	ls   listenerState

	callers []*caller
	ops     []*op
	clk     atomic.Int64

	hVersionDelivered atomic.Bool
	hVerackDelivered  atomic.Bool

	step       int
	stepStamp  int64 // logical stamp at the start of the current step
	stepKind   string
	stepPure   bool // the current step consists of caller operations only
	associated bool
	assocAt    time.Time
	discStep   int   // first step at whose end the peer was seen disconnecting (-1: not yet)
	lossStamp  int64 // logical stamp before which a returned QueueMessage counts as "queued before disconnect"
	discCause  string
	estStep    int // step at which OnVerAck was first observed (-1: not yet)
	expectedPV uint32
	auxNonce   uint64
	hasAux     bool
	auxPeer    *peer.Peer    // auxiliary peer whose version write is held in flight
	auxConn    *simconn.Conn

	waiterStarted bool
	waiterDone    atomic.Bool

	stalled       bool
	everStalled   bool
	remoteClosed  bool
	discIssued    bool // a Disconnect op has been handed to a caller
	preEstQueued  int  // QueueMessage/QueueInventory ops issued while associated and not established
	appSeen       int  // listener records already judged
	parsedTo      int  // number of wire messages already indexed
	out           []wireMsg
	outKey        map[string][]int // wire key -> positions
	invOnWire     map[[32]byte]int
	lastPeerPing  []byte
	unencodable   bool // an op that cannot be encoded at the negotiated version was issued
	slowEnabled   bool
	hsJudged      bool
	refusalJudged bool
	pongJudged    int
	cleaned       bool
	draining      bool // the harness is unblocking goroutines of a recorded known finding
	slowFiredSeen int
	appLog        []string
	appLogged     int
}

func run(r *simkit.Run) {
	// epoch first: no peer, ticker or timer exists yet
	epoch := time.Date(2024, 3, 1, 12, 0, 0, 0, time.UTC)
	time.Sleep(time.Until(epoch))
	r.MarkEpoch()
	rand.Seed(int64(r.Seed))
	cryptotest.SetGlobalRandom(r.T, r.Seed)
	installHook.Do(func() { peer.VerifYield = hookDispatch })

	s := &sim{r: r, discStep: -1, estStep: -1, outKey: map[string][]int{}, invOnWire: map[[32]byte]int{}}
	s.y = &yielder{armed: map[string]bool{}, hits: map[string]int{}}
	current.Store(s.y)
	defer s.cleanup()
	if d := os.Getenv("PEERSIM_DUMP"); d != "" {
		// debugging aid: write the event log of every run to a file
		defer func() {
			os.WriteFile(d+"/"+strconv.FormatUint(r.Seed, 10)+"."+strconv.Itoa(runtime.GOMAXPROCS(0))+".log", []byte(strings.Join(r.Lines(), "\n")+"\n"), 0o644)
		}()
	}

	s.drawKnobs()
	s.setup()
	s.mainLoop()
	s.releaseAux()
	s.finish()
}

func (s *sim) drawKnobs() {
	c := s.r.C
	k := &s.k
	k.inbound = c.Intn(2, "dir") == 1
	if c.Bool(40, "ua-long") {
		// operator comments that make the user agent exactly as long as
		// allowed, or too long (then they are left out and the handshake
		// goes ahead without them)
		n := []int{236, 237, 238, 300}[c.Intn(4, "ua-len")]
		k.uaComments = []string{strings.Repeat("c", n)}
	}
	k.localPV = []uint32{0, 70016, 70013, 70002, 60002, 70015}[simkit.Pick(c, "lpv", 8, 3, 3, 3, 2, 1)]
	k.effPV = k.localPV
	if k.effPV == 0 {
		k.effPV = peer.MaxProtocolVersion
	}
	k.witness = c.Intn(2, "witness") == 0
	k.allowSelf = c.Bool(200, "allowself")
	k.disableStall = c.Bool(250, "nostall")
	k.trickle = []time.Duration{0, time.Second, 7 * time.Second, 50 * time.Millisecond}[simkit.Pick(c, "trickle", 4, 3, 2, 1)]
	k.params = []*chaincfg.Params{&chaincfg.MainNetParams, &chaincfg.TestNet3Params, &chaincfg.SimNetParams, &chaincfg.RegressionNetParams}[simkit.Pick(c, "net", 5, 2, 2, 1)]
	k.wcap = []int{0, 4096, 200, 64, 16}[simkit.Pick(c, "wcap", 14, 2, 2, 1, 1)]
	k.chunkMode = simkit.Pick(c, "chunk", 8, 3, 4, 3)
	k.maxRead = []int{0, 1, 7}[simkit.Pick(c, "maxread", 8, 1, 1)]
	k.nCallers = 1 + simkit.Pick(c, "callers", 4, 4, 3, 2, 1, 1)
	k.tempo = simkit.Pick(c, "tempo", 6, 3, 1)
	k.yieldMode = c.Bool(300, "yieldmode")
	k.burst = c.Bool(250, "burstmode")
	if detMode {
		// bursts are the one part that is not replayable (see top of file)
		k.burst = false
	}
	k.blockErr = c.Bool(20, "newestblock-err")
	k.remoteErr = simkit.Pick(c, "remote-err", 5, 3, 2)
	ls := &s.ls
	if c.Bool(200, "slow-listener") {
		ls.slowKind = []string{"app", "read", "write", "version", "verack"}[simkit.Pick(c, "slow-kind", 3, 3, 3, 2, 1)]
		ls.slowNth = simkit.Range(c, -1, 6, "slow-nth")
		ls.slowDur = []time.Duration{10 * time.Millisecond, time.Second, 16 * time.Second, 31 * time.Second, 20 * time.Second}[simkit.Pick(c, "slow-dur", 3, 3, 2, 1, 1)]
		// off the millisecond grid of the driver's clock steps and the peer's
		// tickers, so that a listener never wakes up at the very instant a
		// timer of the peer fires (two goroutines made runnable at the same
		// simulated instant run in an order the runtime chooses)
		ls.slowDur += 137 * time.Microsecond
		s.slowEnabled = true
		s.r.FaultEnabled("slow_listener")
	}
	ls.reject = c.Bool(30, "onversion-reject")

	r := s.r
	r.Meta["dir"] = map[bool]string{true: "inbound", false: "outbound"}[k.inbound]
	r.Meta["local_pv"] = itoa(int(k.effPV))
	r.Meta["net"] = k.params.Name
	r.Meta["wcap"] = itoa(k.wcap)
	r.Meta["chunk"] = itoa(k.chunkMode)
	r.Meta["callers"] = itoa(k.nCallers)
	r.Meta["yield"] = btoa(k.yieldMode)
	r.Meta["burst"] = btoa(k.burst)
	r.Meta["slow"] = ls.slowKind
	r.Sig("dir=" + r.Meta["dir"])
	r.Sig("callers=" + itoa(k.nCallers))
	r.Sig("chunk=" + itoa(k.chunkMode))
	if k.yieldMode {
		r.Sig("yield")
	}
	if k.burst {
		r.Sig("burst")
		r.FaultEnabled("concurrent_burst")
	}
	if k.chunkMode == 1 {
		r.FaultEnabled("chunk_1byte")
	}
	if k.wcap > 0 {
		r.FaultEnabled("stalled_remote")
	}
	if k.tempo > 0 {
		r.FaultEnabled("delay_over_negotiate")
		r.FaultEnabled("delay_over_idle")
	}
	r.FaultEnabled("remote_close_mid_message")
}

func itoa(n int) string {
	if n == 0 {
		return "0"
	}
	neg := n < 0
	if neg {
		n = -n
	}
	var b [20]byte
	i := len(b)
	for n > 0 {
		i--
		b[i] = byte('0' + n%10)
		n /= 10
	}
	if neg {
		i--
		b[i] = '-'
	}
	return string(b[i:])
}

func btoa(b bool) string {
	if b {
		return "1"
	}
	return "0"
}

func (s *sim) peerConfig() *peer.Config {
	k := &s.k
	svc := wire.SFNodeNetwork
	if k.witness {
		svc |= wire.SFNodeWitness
	}
	var genesis chainhash.Hash = *k.params.GenesisHash
	cfg := &peer.Config{
		NewestBlock: func() (*chainhash.Hash, int32, error) {
			if k.blockErr {
				return nil, 0, net.ErrClosed
			}
			return &genesis, 1234, nil
		},
		UserAgentName:       "verifpeer",
		UserAgentVersion:    "1.0.0",
		UserAgentComments:   k.uaComments,
		ChainParams:         k.params,
		Services:            svc,
		ProtocolVersion:     k.localPV,
		TrickleInterval:     k.trickle,
		AllowSelfConns:      k.allowSelf,
		DisableStallHandler: k.disableStall,
		Listeners:           s.listeners(),
	}
	return cfg
}

func (s *sim) setup() {
	r, k := s.r, &s.k
	s.rm = &remote{s: s, magic: uint32(k.params.Net)}
	s.rm.generate(r.C, k.effPV)
	r.Sig("shape=" + s.rm.shape)
	r.Meta["shape"] = s.rm.shape
	for _, it := range s.rm.items {
		switch it.kind {
		case itBadMagic:
			r.FaultEnabled("bad_magic")
		case itBadChecksum:
			r.FaultEnabled("bad_checksum")
		case itOversize:
			r.FaultEnabled("oversize")
		case itTruncated:
			r.FaultEnabled("truncated")
		case itGarbage:
			r.FaultEnabled("garbage")
		}
	}

	// An inbound self connection needs a nonce this process has sent on some
	// other (outbound) connection: make one with an auxiliary peer.
	wantEcho := false
	for _, it := range s.rm.items {
		if it.kind == itVersion && it.echo {
			wantEcho = true
		}
	}
	if wantEcho && k.inbound {
		s.makeAuxNonce()
	}

	cfg := s.peerConfig()
	if k.inbound {
		s.p = peer.NewInboundPeer(cfg)
	} else {
		p, err := peer.NewOutboundPeer(cfg, "10.0.0.2:8333")
		if err != nil {
			panic("harness: NewOutboundPeer: " + err.Error())
		}
		s.p = p
	}
	s.conn = simconn.New(
		&net.TCPAddr{IP: net.IPv4(10, 0, 0, 1), Port: 18555},
		&net.TCPAddr{IP: net.IPv4(10, 0, 0, 2), Port: 8333}, k.wcap)
	s.conn.SetMaxRead(k.maxRead)
	s.startCallers(k.nCallers)
	r.Event("setup", "dir=%s lpv=%d net=%s svcWitness=%v allowSelf=%v noStall=%v trickle=%s wcap=%d chunk=%d maxread=%d callers=%d yield=%v burst=%v slow=%s/%d/%s reject=%v shape=%s items=%d",
		r.Meta["dir"], k.effPV, k.params.Name, k.witness, k.allowSelf, k.disableStall, k.trickle, k.wcap, k.chunkMode,
		k.maxRead, k.nCallers, k.yieldMode, k.burst, s.ls.slowKind, s.ls.slowNth, s.ls.slowDur, s.ls.reject, s.rm.shape, len(s.rm.items))
}

func (s *sim) makeAuxNonce() {
	cfg := &peer.Config{UserAgentName: "verifaux", UserAgentVersion: "1.0.0", ChainParams: s.k.params,
		AllowSelfConns: true}
	ap, err := peer.NewOutboundPeer(cfg, "10.0.0.9:8333")
	if err != nil {
		panic("harness: aux peer: " + err.Error())
	}
	ac := simconn.New(&net.TCPAddr{IP: net.IPv4(10, 0, 0, 1), Port: 18556},
		&net.TCPAddr{IP: net.IPv4(10, 0, 0, 9), Port: 8333}, 0)
	// Sometimes the auxiliary peer's version message is already on the wire
	// while its Write call has not returned yet (a slow writer): the process
	// must recognise its own nonce from the moment the bytes can be seen.
	inFlight := s.r.C.Bool(400, "aux-write-in-flight")
	if inFlight {
		ac.HoldWrites(2) // a wire message is written as header, then payload
		s.r.FaultEnabled("self_version_write_in_flight")
	}
	ap.AssociateConnection(ac)
	synctest.Wait()
	msgs, _ := splitStream(ac.Written())
	for _, m := range msgs {
		if m.cmd == "version" {
			if n, ok := versionNonce(m.payload); ok {
				s.auxNonce, s.hasAux = n, true
			}
		}
	}
	if inFlight && s.hasAux {
		s.r.Fault("self_version_write_in_flight")
		s.auxPeer, s.auxConn = ap, ac
		return
	}
	ac.ReleaseWrites()
	ap.Disconnect()
	synctest.Wait()
}

// releaseAux ends the auxiliary peer whose version write was held in flight.
func (s *sim) releaseAux() {
	if s.auxPeer == nil {
		return
	}
	s.auxConn.ReleaseWrites()
	// the auxiliary peer is not the system under test: its Disconnect (called
	// from the driver goroutine) must not be parked at an armed yield site
	s.y.mu.Lock()
	saved := s.y.armed
	s.y.armed = map[string]bool{}
	s.y.mu.Unlock()
	s.auxPeer.Disconnect()
	synctest.Wait()
	s.y.mu.Lock()
	s.y.armed = saved
	s.y.mu.Unlock()
	s.auxPeer, s.auxConn = nil, nil
}

// ownNonce returns a nonce the process under test has sent in a version
// message: the peer's own (outbound) or the auxiliary peer's (inbound).
func (s *sim) ownNonce() (uint64, bool) {
	if s.k.inbound {
		return s.auxNonce, s.hasAux
	}
	msgs, _ := splitStream(s.conn.Written())
	for _, m := range msgs {
		if m.cmd == "version" {
			return versionNonce(m.payload)
		}
	}
	return 0, false
}

func (s *sim) established() bool { return s.estStep >= 0 }

// verackReturned: the OnVerAck callback has fired and returned, i.e. nothing
// the application does keeps the negotiation from finishing.
func (s *sim) verackReturned() bool {
	s.ls.mu.Lock()
	n := s.ls.verackDone
	s.ls.mu.Unlock()
	return n > 0
}

// ---- steps ----

func (s *sim) beginStep(kind string, pure bool) {
	s.step++
	s.stepKind = kind
	s.stepPure = pure
	s.stepStamp = s.clk.Add(1)
}

// endStep waits for quiescence, lets a non-stalled remote read, observes and
// logs.
func (s *sim) endStep(format string, args ...any) {
	synctest.Wait()
	for s.k.wcap > 0 && !s.stalled && s.conn.Unconsumed() > 0 {
		s.conn.Consume(-1)
		synctest.Wait()
	}
	obs := s.observe()
	s.r.Event(s.stepKind, format+" | "+obs, args...)
}

func (s *sim) idleCallers() []*caller {
	var out []*caller
	for _, c := range s.callers {
		if c.busy == nil {
			out = append(out, c)
		}
	}
	return out
}

func (s *sim) newOp(c *caller, kind opKind) *op {
	o := &op{id: len(s.ops), caller: c.id, idx: c.n, kind: kind, step: s.step,
		assoc: s.associated, estAtIssue: s.verackReturned()}
	c.n++
	s.ops = append(s.ops, o)
	return o
}

func (s *sim) drawMsgOp(c *caller) *op {
	ch := s.r.C
	o := s.newOp(c, opQueueMsg)
	pvOK := s.pingsIdentifiable()
	w := []int{6, 4, 4, 2, 2, 1, 1, 2}
	if !pvOK {
		w[mkPing] = 0
	}
	o.mk = simkit.Pick(ch, "mk", w...)
	copy(o.token[:], ch.Bytes(32, "optok"))
	// caller tokens never collide with remote tokens or each other
	o.token[7] &= 0x7f
	o.token[31] &= 0x7f
	o.token[30] = byte(o.id)
	o.token[6] = byte(o.id)
	o.token[5] |= 1 // never the zero nonce
	o.invTyp = uint32(1 + ch.Intn(2, "invtyp"))
	o.nilDone = ch.Bool(80, "nildone")
	o.done = make(chan struct{}, 4)
	if _, ok := o.expectedPayload(s.negotiatedGuess()); !ok {
		s.unencodable = true
		s.r.FaultEnabled("unencodable_msg")
	}
	if s.associated && !s.established() {
		s.preEstQueued++
	}
	return o
}

// negotiatedGuess is the version the harness expects the handshake to end
// on: min(local, first version item of the script).
func (s *sim) negotiatedGuess() uint32 {
	pv := s.k.effPV
	for _, it := range s.rm.items {
		if it.kind == itVersion {
			if it.pv >= 0 && uint32(it.pv) < pv {
				pv = uint32(it.pv)
			}
			break
		}
	}
	return pv
}

// pingsIdentifiable: below BIP31 a ping carries no nonce, so a queued ping
// could not be recognised on the wire.
func (s *sim) pingsIdentifiable() bool { return s.negotiatedGuess() > 60000 }

func (s *sim) drawInvOp(c *caller) *op {
	ch := s.r.C
	o := s.newOp(c, opQueueInv)
	// sometimes the same inventory again
	if ch.Bool(200, "inv-dup") {
		for i := len(s.ops) - 2; i >= 0; i-- {
			if s.ops[i].kind == opQueueInv {
				o.token, o.invTyp = s.ops[i].token, s.ops[i].invTyp
				if s.associated && !s.established() {
					s.preEstQueued++
				}
				return o
			}
		}
	}
	copy(o.token[:], ch.Bytes(32, "invtok"))
	o.token[31] &= 0x7f
	o.token[30] = byte(o.id)
	o.token[29] = 0xA5
	o.invTyp = uint32(1 + simkit.Pick(ch, "qinvtyp", 3, 1))
	if detMode && s.associated && !s.verackReturned() {
		// A block inventory queued before the handshake completes sits in
		// outputInvChan while messages sit in outputQueue; which of the two the
		// freshly started queueHandler takes first is the runtime's select
		// choice (a tie in the sense of DESIGN §1.4).  The oracles do not care;
		// the determinism self-test excludes the tie.
		o.invTyp = 1
	}
	if s.associated && !s.established() {
		s.preEstQueued++
	}
	if s.established() && s.k.trickle > 0 && o.invTyp == 1 && ch.Bool(40, "inv-flood") {
		// several full inventory messages' worth in one trickle tick
		o.invN = []int{1000, 1001, 2001, 3001, 3600}[ch.Intn(5, "inv-flood-n")]
		s.r.Probe("inventory-flood")
	}
	return o
}

func (s *sim) issue(c *caller, o *op) {
	c.busy = o
	c.cmd <- o
}

func opDesc(o *op) string {
	switch o.kind {
	case opQueueMsg:
		d := "QueueMessage(" + mkCmd[o.mk]
		if o.nilDone {
			d += ",nil"
		}
		return d + ")#" + itoa(o.id) + "@c" + itoa(o.caller)
	case opQueueInv:
		if o.invN > 1 {
			return "QueueInventory(t" + itoa(int(o.invTyp)) + " x" + itoa(o.invN) + ")#" + itoa(o.id) + "@c" + itoa(o.caller)
		}
		return "QueueInventory(t" + itoa(int(o.invTyp)) + ")#" + itoa(o.id) + "@c" + itoa(o.caller)
	default:
		return "Disconnect#" + itoa(o.id) + "@c" + itoa(o.caller)
	}
}

// drawCallerOp picks an operation for an idle caller.
func (s *sim) drawCallerOp(c *caller) *op {
	ch := s.r.C
	wDisc := 2
	if s.discStep >= 0 || s.discIssued || (s.associated && !s.established()) {
		wDisc = 1
	}
	wMsg, wInv := 14, 4
	if s.associated && !s.established() && s.preEstQueued >= 30 {
		// the peer's output queue holds 50 entries and nobody reads it before
		// the handshake completes: stay well below that so that callers can
		// never block for good
		wMsg, wInv = 0, 0
	}
	if len(s.ops) >= 60 {
		wMsg, wInv = 0, 0
	}
	switch simkit.Pick(ch, "op", wMsg, wInv, wDisc) {
	case 0:
		return s.drawMsgOp(c)
	case 1:
		return s.drawInvOp(c)
	default:
		s.discIssued = true
		return s.newOp(c, opDisconnect)
	}
}

func (s *sim) stepCallerOp() bool {
	idle := s.idleCallers()
	if len(idle) == 0 {
		return false
	}
	c := idle[s.r.C.Intn(len(idle), "caller")]
	s.beginStep("call", true)
	o := s.drawCallerOp(c)
	o.step = s.step
	s.issue(c, o)
	s.endStep("%s", opDesc(o))
	return true
}

func (s *sim) stepBurst() bool {
	idle := s.idleCallers()
	if len(idle) < 2 {
		return false
	}
	s.beginStep("burst", true)
	n := simkit.Range(s.r.C, 2, len(idle), "burst-n")
	gate := make(chan struct{})
	desc := ""
	for i := 0; i < n; i++ {
		c := idle[i]
		o := s.drawCallerOp(c)
		o.step = s.step
		o.gateCh = gate
		s.issue(c, o)
		desc += opDesc(o) + " "
	}
	synctest.Wait() // everybody is at the gate
	s.r.Fault("concurrent_burst")
	close(gate)
	// Nothing that depends on the interleaving inside the burst goes into
	// the log line itself (the observation summary is taken at quiescence).
	s.endStep("%s", desc)
	return true
}

func (s *sim) stepAssociate() {
	s.beginStep("associate", false)
	s.associated = true
	s.assocAt = time.Now()
	s.p.AssociateConnection(s.conn)
	s.endStep("")
}

func (s *sim) chunkSize() (int, bool) {
	switch s.k.chunkMode {
	case 0:
		return 0, true
	case 1:
		return 1, false
	case 2:
		return simkit.Range(s.r.C, 1, 16, "chunk-n"), false
	default:
		return simkit.Range(s.r.C, 1, 200, "chunk-n"), false
	}
}

func (s *sim) stepDeliver() bool { return s.deliver(nil) }

// stepCrossfire: an application goroutine queues a reject message (what
// netsync does about a transaction it does not like) at the very moment the
// remote's next message - a reject of its own - is handed to the peer: the
// input side and the output side work on the two messages concurrently, with
// nothing of the harness between them.  Which of the two runs first is the
// runtime's business, so the step is not part of the determinism self-test;
// the oracles hold for every order.
func (s *sim) stepCrossfire() bool {
	if detMode || !s.established() || s.discStep >= 0 || s.remoteClosed || s.stalled || s.expectedPV < 70002 {
		return false
	}
	idle := s.idleCallers()
	if len(idle) == 0 || s.conn.PendingRead() > 0 || !s.conn.ReaderBlocked() {
		return false
	}
	if !s.rm.remaining() {
		if len(s.rm.items) >= 40 {
			return false
		}
		it := s.rm.genApp(s.r.C, s.expectedPV)
		it.app = appReject
		s.rm.items = append(s.rm.items, it)
	}
	c := idle[s.r.C.Intn(len(idle), "caller")]
	ok := s.deliver(func() {
		o := s.drawMsgOp(c)
		o.mk = mkReject
		o.step = s.step
		o.gateCh = make(chan struct{})
		s.issue(c, o)
		synctest.Wait() // the caller is at the gate
		close(o.gateCh)
	})
	if ok {
		s.r.Fault("crossfire")
	}
	return ok
}

// deliver hands the next chunk of the remote's script to the peer; pre, if
// any, runs inside the step right before the bytes are handed over.
func (s *sim) deliver(pre func()) bool {
	rm := s.rm
	if !rm.remaining() {
		return false
	}
	if detMode && (s.conn.PendingRead() > 0 || !s.conn.ReaderBlocked()) {
		// The peer has not consumed what it was given (a listener is asleep, a
		// goroutine is parked, a write is stalled).  A backlog of input is read
		// by the input side concurrently with whatever the output side is
		// doing once the peer moves again - two independent activities whose
		// relative order is the runtime's.  The oracles hold for every order;
		// the determinism self-test does not build backlogs.
		return false
	}
	s.beginStep("deliver", false)
	n, whole := s.chunkSize()
	b := rm.nextChunk(n, whole)
	if b == nil {
		s.step--
		return false
	}
	from := rm.sent - len(b)
	// feed the model with every item whose last byte is being delivered,
	// before the peer can see it
	var completed []*item
	var before []hsPhase
	for rm.fedTo < rm.next && rm.items[rm.fedTo].end <= rm.sent {
		it := rm.items[rm.fedTo]
		before = append(before, rm.model.phase)
		rm.model.feed(it, s.k.allowSelf, s.k.effPV)
		// necessary conditions for any handshake, whatever the model thinks of
		// the rest of the script: a complete well-formed version message and a
		// complete verack message have been handed to the peer
		if it.kind == itVersion {
			s.hVersionDelivered.Store(true)
		}
		if it.kind == itVerack {
			s.hVerackDelivered.Store(true)
		}
		completed = append(completed, it)
		rm.fedTo++
	}
	if s.k.chunkMode == 1 {
		s.r.Fault("chunk_1byte")
	}
	if pre != nil {
		pre()
	}
	s.conn.Deliver(b)
	what := ""
	for i, it := range completed {
		what += " done:" + it.kind.String()
		if it.kind == itApp {
			what += "/" + appCmd[it.app]
		}
		if it.kind == itVersion {
			what += "/pv" + itoa(int(it.pv))
			if it.echo {
				what += "/echo"
			}
		}
		_ = i
		switch it.kind {
		case itBadMagic:
			s.r.Fault("bad_magic")
		case itBadChecksum:
			s.r.Fault("bad_checksum")
		case itOversize:
			s.r.Fault("oversize")
		case itGarbage:
			s.r.Fault("garbage")
		case itTruncated:
			s.r.Fault("truncated")
		}
	}
	s.endStep("off=%d n=%d%s model=%s", from, len(b), what, rm.model.phase)
	s.judgeDelivered(completed, before)
	// a truncated message is followed by the remote hanging up
	for _, it := range completed {
		if it.closeAfter && !s.remoteClosed {
			s.stepRemoteClose()
			break
		}
	}
	return true
}

func (s *sim) closeErrs() (error, error, string) {
	switch s.k.remoteErr {
	case 1:
		e := &net.OpError{Op: "read", Net: "tcp", Err: syscall.ECONNRESET}
		return e, &net.OpError{Op: "write", Net: "tcp", Err: syscall.ECONNRESET}, "reset"
	case 2:
		return nil, &net.OpError{Op: "write", Net: "tcp", Err: syscall.EPIPE}, "eof+epipe"
	default:
		return nil, nil, "eof"
	}
}

func (s *sim) stepRemoteClose() {
	if detMode && !s.conn.ReaderBlocked() {
		// same tie as an input backlog (see stepDeliver): the end of stream
		// would be noticed concurrently with whatever else wakes the peer up
		return
	}
	s.beginStep("remote-close", false)
	mid := s.rm.midMessage()
	if mid {
		s.r.Fault("remote_close_mid_message")
	}
	re, we, name := s.closeErrs()
	s.remoteClosed = true
	s.rm.closed = true
	s.conn.RemoteClose(re, we)
	s.endStep("%s mid=%v", name, mid)
}

var advMenu = []time.Duration{time.Millisecond, 100 * time.Millisecond, time.Second, 5 * time.Second,
	14 * time.Second, 16 * time.Second, 29 * time.Second, 31 * time.Second, 2*time.Minute + time.Second, 5*time.Minute + time.Second}

func (s *sim) stepAdvance() {
	var w []int
	switch s.k.tempo {
	case 0:
		w = []int{40, 30, 20, 6, 1, 1, 1, 1, 0, 0}
	case 1:
		w = []int{20, 15, 15, 10, 8, 8, 6, 6, 6, 6}
	default:
		w = []int{5, 5, 5, 5, 10, 10, 12, 16, 16, 16}
	}
	if !s.associated {
		// nothing is running; long sleeps before the connection exists are free
		w = []int{10, 5, 5, 1, 0, 0, 0, 1, 0, 0}
	}
	d := advMenu[simkit.Pick(s.r.C, "adv", w...)]
	s.beginStep("advance", false)
	wasEst, wasConn := s.established(), s.associated && s.p.Connected()
	if d > 30*time.Second && s.associated && !wasEst && wasConn {
		s.r.Fault("delay_over_negotiate")
	}
	if d > 5*time.Minute && wasEst && wasConn {
		s.r.Fault("delay_over_idle")
	}
	time.Sleep(d)
	s.endStep("%s", d)
	if wasConn && !s.p.Connected() {
		switch {
		case !wasEst && !s.established():
			s.r.Probe("negotiate timeout or failure during a time advance")
		case d > 5*time.Minute:
			s.r.Probe("idle timeout fired")
			s.noteCause("idle-timeout")
		default:
			if !s.k.disableStall {
				s.r.Probe("stall timeout fired")
				s.noteCause("stall-or-timer")
			}
		}
	}
}

func (s *sim) noteCause(c string) {
	if s.discCause == "" {
		s.discCause = c
	}
}

func (s *sim) stepStallToggle() {
	s.beginStep("stall", false)
	s.stalled = !s.stalled
	if s.stalled {
		s.everStalled = true
		s.r.Fault("stalled_remote")
	}
	s.endStep("stalled=%v", s.stalled)
}

func (s *sim) stepArm() bool {
	if s.y.nArmed()+s.y.nParked() >= 2 {
		return false
	}
	site := yieldSites[simkit.Pick(s.r.C, "site", 5, 2, 4, 4, 3, 4, 2)]
	s.beginStep("arm", false)
	s.y.arm(site)
	s.r.FaultEnabled("yield_park:" + site)
	s.endStep("%s", site)
	return true
}

func (s *sim) stepRelease() bool {
	n := s.y.nParked()
	if n == 0 {
		return false
	}
	s.beginStep("release", false)
	site := s.y.release(s.r.C.Intn(n, "release"), s.disconnectFlagged())
	s.endStep("%s", site)
	return true
}

func (s *sim) stepWaiter() bool {
	if s.waiterStarted {
		return false
	}
	s.beginStep("waiter", false)
	s.waiterStarted = true
	go func() {
		s.p.WaitForDisconnect()
		s.waiterDone.Store(true)
	}()
	s.endStep("WaitForDisconnect started")
	return true
}

// remoteMore extends the script of an established, still talking remote by
// one more message (no step of its own: the bytes are delivered by later
// deliver steps).
func (s *sim) remoteMore() {
	c := s.r.C
	var it *item
	switch simkit.Pick(c, "more", 5, 3, 2) {
	case 0:
		it = s.rm.genApp(c, s.expectedPV)
		it.app = appPing
	case 1:
		// answer the peer's last ping
		it = s.rm.genApp(c, s.expectedPV)
		if s.expectedPV > 60000 && len(s.lastPeerPing) == 8 {
			it.app = appPong
			copy(it.token[:8], s.lastPeerPing)
		}
	default:
		it = s.rm.genApp(c, s.expectedPV)
	}
	s.rm.items = append(s.rm.items, it)
}

func (s *sim) mainLoop() {
	c := s.r.C
	budget := simkit.Range(c, 10, 80, "budget")
	deliverCap := 1500
	afterDisc := 0
	for budget > 0 {
		disconnected := s.discStep >= 0
		if disconnected {
			afterDisc++
			if afterDisc > 6 {
				break
			}
		}
		if !s.associated {
			// before the connection exists
			switch simkit.Pick(c, "pre", 10, 2, 1, 1) {
			case 0:
				s.stepAssociate()
			case 1:
				s.stepCallerOp()
			case 2:
				s.stepAdvance()
			default:
				s.stepWaiter()
			}
			budget--
			continue
		}
		wDeliver, wAdv, wCall, wBurst, wClose, wStall, wArm, wRel, wWait, wMore, wCross := 0, 5, 12, 0, 1, 0, 0, 0, 1, 0, 0
		if !detMode && s.established() && !disconnected && s.k.chunkMode == 0 {
			wCross = 4
		}
		if !s.rm.remaining() && !s.remoteClosed && s.established() && !disconnected && len(s.rm.items) < 40 {
			wMore = 6
		}
		if s.rm.remaining() && deliverCap > 0 {
			wDeliver = 30
			if s.k.chunkMode != 0 {
				wDeliver = 600
			}
		}
		if !s.established() && wDeliver > 0 {
			// let most connections get through their handshake
			wDeliver, wAdv, wCall = wDeliver*3, 3, 6
		}
		if s.k.burst {
			wBurst = 5
		}
		if s.k.wcap > 0 {
			wStall = 2
		}
		if s.k.yieldMode {
			wArm = 5
			if s.y.nParked() > 0 {
				wRel = 6
			}
		}
		if s.remoteClosed {
			wClose = 0
		}
		if disconnected {
			wDeliver, wClose, wStall = wDeliver/10, 0, 0
		}
		ok := true
		counted := true
		switch simkit.Pick(c, "ev", wDeliver, wAdv, wCall, wBurst, wClose, wStall, wArm, wRel, wWait, wMore, wCross) {
		case 0:
			ok = s.stepDeliver()
			deliverCap--
			counted = s.k.chunkMode == 0 || c.Intn(8, "chunk-cost") == 0
		case 1:
			s.stepAdvance()
		case 2:
			ok = s.stepCallerOp()
		case 3:
			ok = s.stepBurst()
		case 4:
			s.stepRemoteClose()
		case 5:
			s.stepStallToggle()
		case 6:
			ok = s.stepArm()
		case 7:
			ok = s.stepRelease()
		case 8:
			ok = s.stepWaiter()
		case 10:
			ok = s.stepCrossfire()
		default:
			s.remoteMore()
			counted = false
		}
		if counted || !ok {
			budget--
		}
	}
}

// finish brings the peer down (if it still is up), waits a bounded simulated
// time and runs the end-of-run oracles.
func (s *sim) finish() {
	c := s.r.C
	if !s.associated && c.Bool(700, "late-associate") {
		s.stepAssociate()
	}
	if s.discStep < 0 {
		// final disconnect cause
		cause := simkit.Pick(c, "final", 5, 3, 2, 1)
		switch {
		case cause == 1 && s.associated && !s.remoteClosed:
			s.stepRemoteClose()
			s.noteCause("remote-close")
		case cause == 2 && s.associated:
			// silence: negotiate / idle timeout (or the stall handler) ends it
			s.beginStep("advance", false)
			time.Sleep(6 * time.Minute)
			s.endStep("6m0s (final silence)")
			s.noteCause("timeout")
		}
		if s.discStep < 0 && s.associated && c.Bool(250, "disconnect-storm") {
			s.disconnectStorm()
		}
		if s.discStep < 0 {
			idle := s.idleCallers()
			if len(idle) > 0 {
				cl := idle[c.Intn(len(idle), "caller")]
				s.beginStep("call", true)
				o := s.newOp(cl, opDisconnect)
				s.discIssued = true
				s.issue(cl, o)
				s.endStep("%s (final)", opDesc(o))
			}
		}
	}
	if !s.waiterStarted && c.Bool(500, "late-waiter") {
		s.stepWaiter()
	}
	// everything parked continues now: no new parks, and one goroutine at a
	// time (releasing two at once would be a burst)
	s.y.disarm()
	for s.y.nParked() > 0 {
		s.beginStep("release", false)
		site := s.y.release(0, s.disconnectFlagged())
		s.endStep("%s (final)", site)
	}
	if s.discStep < 0 {
		// every caller is stuck and nothing disconnected the peer: the driver
		// itself pulls the plug (only reachable when calls never returned)
		s.beginStep("driver-disconnect", false)
		s.p.Disconnect()
		s.endStep("")
	}
	// bounded grace: slow listeners (<= 31 s per callback) may still be running
	s.beginStep("grace", false)
	time.Sleep(5 * time.Minute)
	s.endStep("5m0s")
	s.finalOracles()
}

// disconnectStorm: several goroutines call Disconnect at the same instant
// (they spin on a start flag so that they really overlap).  The connection
// and the quit channel must be closed exactly once: a second close panics.
// The outcome does not depend on who wins, so the step is replayable.
func (s *sim) disconnectStorm() {
	s.y.disarm()
	for s.y.nParked() > 0 {
		s.beginStep("release", false)
		site := s.y.release(0, s.disconnectFlagged())
		s.endStep("%s (before the storm)", site)
	}
	s.beginStep("disconnect-storm", false)
	n := runtime.GOMAXPROCS(0) - 1
	single := n < 1
	if n < 1 {
		n = 1
	}
	if n > 3 {
		n = 3
	}
	var start int32
	var wg sync.WaitGroup
	var mu sync.Mutex
	panicked := ""
	call := func() {
		defer func() {
			if p := recover(); p != nil {
				mu.Lock()
				panicked = fmt.Sprint(p) + "\n" + string(debug.Stack())
				mu.Unlock()
			}
		}()
		s.p.Disconnect()
	}
	for i := 0; i < n; i++ {
		wg.Add(1)
		go func() {
			defer wg.Done()
			for atomic.LoadInt32(&start) == 0 {
				if single {
					runtime.Gosched()
				}
			}
			call()
		}()
	}
	for i := 0; i < 50; i++ {
		runtime.Gosched() // let the spinners reach their loop
	}
	atomic.StoreInt32(&start, 1)
	call()
	wg.Wait()
	s.r.Fault("concurrent_disconnects")
	s.noteCause("disconnect-storm")
	s.endStep("concurrent Disconnect calls") // (how many depends on GOMAXPROCS: not in the log)
	if panicked != "" {
		s.r.Violate(prop, "O5-closed-once", "", "concurrent Disconnect calls panicked: %s", panicked)
	}
}

// cleanup runs on every exit path (also when an oracle fired): nothing of
// this run may be left running or sleeping when the bubble ends, except what
// the system under test itself leaked.
func (s *sim) cleanup() {
	if s.cleaned {
		return
	}
	s.cleaned = true
	s.releaseAux()
	s.y.shutdown(true)
	if s.p != nil {
		s.p.Disconnect()
	}
	if s.conn != nil {
		s.conn.RemoteClose(nil, nil)
		s.conn.Close()
	}
	for _, c := range s.callers {
		close(c.cmd)
	}
	time.Sleep(5 * time.Minute)
	synctest.Wait()
	current.Store(nil)
}

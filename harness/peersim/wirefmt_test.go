package peersim

// Independent framing of the bitcoin p2p v1 wire format: the remote endpoint
// builds its messages with it and the oracles split the bytes the peer wrote
// with it.  Nothing here calls into /repo/wire.

import (
	"bytes"
	"crypto/sha256"
	"encoding/binary"
)

const hdrSize = 24

func dsha4(b []byte) [4]byte {
	h1 := sha256.Sum256(b)
	h2 := sha256.Sum256(h1[:])
	var o [4]byte
	copy(o[:], h2[:4])
	return o
}

// frame builds magic|command|length|checksum|payload.
func frame(magic uint32, cmd string, payload []byte) []byte {
	out := make([]byte, hdrSize+len(payload))
	binary.LittleEndian.PutUint32(out[0:4], magic)
	copy(out[4:16], cmd) // zero padded
	binary.LittleEndian.PutUint32(out[16:20], uint32(len(payload)))
	cs := dsha4(payload)
	copy(out[20:24], cs[:])
	copy(out[24:], payload)
	return out
}

// wireMsg is one message split out of a byte stream.
type wireMsg struct {
	magic   uint32
	cmd     string
	payload []byte
	csOK    bool
	end     int // offset one past the last byte of the message in the stream
}

// splitStream splits a byte stream into complete messages; rest is the
// number of trailing bytes that do not form a complete message.
func splitStream(b []byte) (msgs []wireMsg, rest int) {
	off := 0
	for len(b)-off >= hdrSize {
		h := b[off : off+hdrSize]
		l := int(binary.LittleEndian.Uint32(h[16:20]))
		if l < 0 || l > 64<<20 || len(b)-off-hdrSize < l {
			break
		}
		p := b[off+hdrSize : off+hdrSize+l]
		cs := dsha4(p)
		cmd := string(bytes.TrimRight(h[4:16], "\x00"))
		msgs = append(msgs, wireMsg{
			magic: binary.LittleEndian.Uint32(h[0:4]), cmd: cmd, payload: p,
			csOK: bytes.Equal(cs[:], h[20:24]), end: off + hdrSize + l,
		})
		off += hdrSize + l
	}
	return msgs, len(b) - off
}

func le64(v uint64) []byte {
	var b [8]byte
	binary.LittleEndian.PutUint64(b[:], v)
	return b[:]
}

func le32(v uint32) []byte {
	var b [4]byte
	binary.LittleEndian.PutUint32(b[:], v)
	return b[:]
}

// invPayload encodes an inv-shaped payload (inv, getdata, notfound) with the
// given entries.
func invPayload(types []uint32, hashes [][32]byte) []byte {
	var o []byte
	o = append(o, varint(uint64(len(types)))...)
	for i := range types {
		o = append(o, le32(types[i])...)
		o = append(o, hashes[i][:]...)
	}
	return o
}

func varint(v uint64) []byte {
	switch {
	case v < 0xfd:
		return []byte{byte(v)}
	case v <= 0xffff:
		return []byte{0xfd, byte(v), byte(v >> 8)}
	case v <= 0xffffffff:
		return append([]byte{0xfe}, le32(uint32(v))...)
	default:
		return append([]byte{0xff}, le64(v)...)
	}
}

// parseInvPayload decodes an inv-shaped payload; ok is false when malformed.
func parseInvPayload(p []byte) (types []uint32, hashes [][32]byte, ok bool) {
	if len(p) < 1 {
		return nil, nil, false
	}
	var n uint64
	switch p[0] {
	case 0xfd:
		if len(p) < 3 {
			return nil, nil, false
		}
		n = uint64(p[1]) | uint64(p[2])<<8
		p = p[3:]
	case 0xfe:
		if len(p) < 5 {
			return nil, nil, false
		}
		n = uint64(binary.LittleEndian.Uint32(p[1:5]))
		p = p[5:]
	case 0xff:
		return nil, nil, false
	default:
		n = uint64(p[0])
		p = p[1:]
	}
	if uint64(len(p)) != n*36 {
		return nil, nil, false
	}
	for i := uint64(0); i < n; i++ {
		types = append(types, binary.LittleEndian.Uint32(p[:4]))
		var h [32]byte
		copy(h[:], p[4:36])
		hashes = append(hashes, h)
		p = p[36:]
	}
	return types, hashes, true
}

// versionNonce extracts the nonce of a version payload (offset 72: 4 version
// + 8 services + 8 timestamp + 26 addr_recv + 26 addr_from).
func versionNonce(p []byte) (uint64, bool) {
	if len(p) < 80 {
		return 0, false
	}
	return binary.LittleEndian.Uint64(p[72:80]), true
}

// versionProto extracts the advertised protocol version of a version payload.
func versionProto(p []byte) (int32, bool) {
	if len(p) < 4 {
		return 0, false
	}
	return int32(binary.LittleEndian.Uint32(p[0:4])), true
}

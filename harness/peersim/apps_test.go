package peersim

// Application side: caller goroutines, listeners, the yield controller.

import (
	"fmt"
	"bytes"
	"runtime"
	"sync"
	"sync/atomic"
	"time"

	"github.com/btcsuite/btcd/chainhash/v2"
	"github.com/btcsuite/btcd/peer"
	"github.com/btcsuite/btcd/wire/v2"
)

type opKind int

const (
	opQueueMsg opKind = iota
	opQueueInv
	opDisconnect
)

const (
	mkPing = iota
	mkInv
	mkGetData
	mkNotFound
	mkGetHeaders
	mkFeeFilter
	mkPong
	mkReject
)

var mkCmd = [...]string{"ping", "inv", "getdata", "notfound", "getheaders", "feefilter", "pong", "reject"}

// rejectReason is the reason text of the reject message an application queues
// for the token (what netsync says about a transaction it does not like, with
// characters a log must not reproduce).
func rejectReason(tok *[32]byte) string {
	return fmt.Sprintf("<i>no&%x\x00\x1b[2J", tok[8:12+int(tok[9]%20)])
}

// op is one call an application goroutine makes on the peer.
type op struct {
	id      int
	caller  int
	idx     int // index within its caller
	kind    opKind
	mk      int      // message kind for opQueueMsg
	token   [32]byte // unique payload token
	invTyp  uint32
	invN    int // > 1: that many distinct inventory vectors queued in one go
	nilDone bool
	done    chan struct{}
	gateCh  chan struct{} // burst gate (nil outside bursts)

	step     int   // driver step in which it was issued
	inv, ret int64 // logical stamps; ret==0: not returned yet
	// harness-observed facts at issue time
	assoc      bool // AssociateConnection had been called
	estAtIssue bool // OnVerAck had fired and returned (the negotiation goroutine was free to finish)
	dones      int  // signals observed so far
	lateDone   bool // the first signal only arrived after the harness unblocked a stuck goroutine
	doneStep   int
}

func (o *op) returned() bool { return atomic.LoadInt64(&o.ret) != 0 }

func (o *op) message() wire.Message {
	h := chainhash.Hash(o.token)
	switch o.mk {
	case mkPing:
		return wire.NewMsgPing(leU64(o.token[:8]))
	case mkPong:
		return wire.NewMsgPong(leU64(o.token[:8]))
	case mkInv:
		m := wire.NewMsgInv()
		m.AddInvVect(wire.NewInvVect(wire.InvType(o.invTyp), &h))
		return m
	case mkGetData:
		m := wire.NewMsgGetData()
		m.AddInvVect(wire.NewInvVect(wire.InvType(o.invTyp), &h))
		return m
	case mkNotFound:
		m := wire.NewMsgNotFound()
		m.AddInvVect(wire.NewInvVect(wire.InvType(o.invTyp), &h))
		return m
	case mkGetHeaders:
		m := wire.NewMsgGetHeaders()
		m.AddBlockLocatorHash(&h)
		m.HashStop = h
		return m
	case mkFeeFilter:
		return wire.NewMsgFeeFilter(int64(leU64(o.token[:8]) >> 1))
	case mkReject:
		m := wire.NewMsgReject("tx", wire.RejectCode(0x40+o.token[10]&3), rejectReason(&o.token))
		m.Hash = h
		return m
	}
	panic("harness: bad message kind")
}

// expectedPayload is the harness's own encoding of the message for the
// negotiated protocol version; ok=false means the message cannot be encoded
// at that version (the peer then legitimately fails the write).
func (o *op) expectedPayload(pv uint32) (payload []byte, ok bool) {
	switch o.mk {
	case mkPing:
		if pv > 60000 {
			return append([]byte(nil), o.token[:8]...), true
		}
		return nil, true
	case mkPong:
		if pv > 60000 {
			return append([]byte(nil), o.token[:8]...), true
		}
		return nil, false
	case mkInv, mkGetData, mkNotFound:
		return invPayload([]uint32{o.invTyp}, [][32]byte{o.token}), true
	case mkGetHeaders:
		var b []byte
		b = append(b, le32(0)...) // the queued MsgGetHeaders carries ProtocolVersion 0
		b = append(b, 1)
		b = append(b, o.token[:]...)
		b = append(b, o.token[:]...)
		return b, true
	case mkFeeFilter:
		if pv >= 70013 {
			return le64(leU64(o.token[:8]) >> 1), true
		}
		return nil, false
	case mkReject:
		if pv < 70002 {
			return nil, false
		}
		reason := rejectReason(&o.token)
		b := []byte{2, 't', 'x', 0x40 + o.token[10]&3, byte(len(reason))}
		b = append(b, reason...)
		return append(b, o.token[:]...), true
	}
	return nil, false
}

func leU64(b []byte) uint64 {
	var v uint64
	for i := 7; i >= 0; i-- {
		v = v<<8 | uint64(b[i])
	}
	return v
}

// caller is one application goroutine.
type caller struct {
	id   int
	cmd  chan *op
	busy *op // op in flight (set and cleared by the driver)
	n    int
}

func (s *sim) startCallers(n int) {
	for i := 0; i < n; i++ {
		c := &caller{id: i, cmd: make(chan *op, 1)}
		s.callers = append(s.callers, c)
		go func() {
			for o := range c.cmd {
				if g := o.gate(); g != nil {
					<-g
				}
				atomic.StoreInt64(&o.inv, s.clk.Add(1))
				switch o.kind {
				case opQueueMsg:
					var d chan<- struct{}
					if !o.nilDone {
						d = o.done
					}
					s.p.QueueMessage(o.message(), d)
				case opQueueInv:
					h := chainhash.Hash(o.token)
					s.p.QueueInventory(wire.NewInvVect(wire.InvType(o.invTyp), &h))
					for i := 1; i < o.invN; i++ {
						// (more than the trickle path sends in one message,
						// within one trickle tick)
						hi := h
						// (never equal to the op's own vector, nor to each other)
						hi[0], hi[1], hi[2] = byte(i), byte(i>>8), ^h[2]
						s.p.QueueInventory(wire.NewInvVect(wire.InvType(o.invTyp), &hi))
					}
				case opDisconnect:
					s.p.Disconnect()
				}
				atomic.StoreInt64(&o.ret, s.clk.Add(1))
			}
		}()
	}
}

// gate is the burst gate of the current step (nil outside bursts).
func (o *op) gate() chan struct{} { return o.gateCh }

// ---- listeners ----

type lsnRecord struct {
	name          string
	vk, va        bool // peer's own flags at callback time
	hVer, hVerack bool // harness-side: were a valid version / the verack delivered at all
	token         [32]byte
	hasToken      bool
}

type listenerState struct {
	mu         sync.Mutex
	app        []lsnRecord // application-message callbacks in order
	verack     int
	verackDone int // OnVerAck callbacks that have returned
	verackPV   uint32
	version    int
	sendaddr   int
	// slow listener plan (fixed before the peer exists)
	slowKind  string // "", "app", "read", "write", "version", "verack"
	slowNth   int    // which call (0-based) sleeps; -1: every call
	slowDur   time.Duration
	slowCount int
	slowFired int
	reject    bool // OnVersion rejects
}

func (s *sim) maybeSleep(kind string) {
	ls := &s.ls
	ls.mu.Lock()
	if ls.slowKind != kind {
		ls.mu.Unlock()
		return
	}
	n := ls.slowCount
	ls.slowCount++
	hit := ls.slowNth < 0 || n == ls.slowNth
	d := ls.slowDur
	if hit {
		ls.slowFired++
	}
	ls.mu.Unlock()
	if hit {
		time.Sleep(d)
	}
}

func (s *sim) appCallback(name string, p *peer.Peer, tok *[32]byte) {
	rec := lsnRecord{name: name, vk: p.VersionKnown(), va: p.VerAckReceived(),
		hVer: s.hVersionDelivered.Load(), hVerack: s.hVerackDelivered.Load()}
	if tok != nil {
		rec.token, rec.hasToken = *tok, true
	}
	s.ls.mu.Lock()
	s.ls.app = append(s.ls.app, rec)
	s.ls.mu.Unlock()
	s.maybeSleep("app")
}

func tokFromInv(l []*wire.InvVect) *[32]byte {
	if len(l) == 0 {
		return nil
	}
	t := [32]byte(l[0].Hash)
	return &t
}

func tokFromNonce(n uint64) *[32]byte {
	var t [32]byte
	for i := 0; i < 8; i++ {
		t[i] = byte(n >> (8 * i))
	}
	return &t
}

func (s *sim) listeners() peer.MessageListeners {
	return peer.MessageListeners{
		OnGetAddr: func(p *peer.Peer, m *wire.MsgGetAddr) { s.appCallback("getaddr", p, nil) },
		OnAddr:    func(p *peer.Peer, m *wire.MsgAddr) { s.appCallback("addr", p, nil) },
		OnAddrV2:  func(p *peer.Peer, m *wire.MsgAddrV2) { s.appCallback("addrv2", p, nil) },
		OnPing:    func(p *peer.Peer, m *wire.MsgPing) { s.appCallback("ping", p, tokFromNonce(m.Nonce)) },
		OnPong:    func(p *peer.Peer, m *wire.MsgPong) { s.appCallback("pong", p, tokFromNonce(m.Nonce)) },
		OnMemPool: func(p *peer.Peer, m *wire.MsgMemPool) { s.appCallback("mempool", p, nil) },
		OnTx:      func(p *peer.Peer, m *wire.MsgTx) { s.appCallback("tx", p, nil) },
		OnBlock:   func(p *peer.Peer, m *wire.MsgBlock, b []byte) { s.appCallback("block", p, nil) },
		OnCFilter: func(p *peer.Peer, m *wire.MsgCFilter) { s.appCallback("cfilter", p, nil) },
		OnCFHeaders: func(p *peer.Peer, m *wire.MsgCFHeaders) {
			s.appCallback("cfheaders", p, nil)
		},
		OnCFCheckpt: func(p *peer.Peer, m *wire.MsgCFCheckpt) { s.appCallback("cfcheckpt", p, nil) },
		OnInv:       func(p *peer.Peer, m *wire.MsgInv) { s.appCallback("inv", p, tokFromInv(m.InvList)) },
		OnHeaders:   func(p *peer.Peer, m *wire.MsgHeaders) { s.appCallback("headers", p, nil) },
		OnNotFound: func(p *peer.Peer, m *wire.MsgNotFound) {
			s.appCallback("notfound", p, tokFromInv(m.InvList))
		},
		OnGetData: func(p *peer.Peer, m *wire.MsgGetData) {
			s.appCallback("getdata", p, tokFromInv(m.InvList))
		},
		OnGetBlocks:    func(p *peer.Peer, m *wire.MsgGetBlocks) { s.appCallback("getblocks", p, nil) },
		OnGetHeaders:   func(p *peer.Peer, m *wire.MsgGetHeaders) { s.appCallback("getheaders", p, nil) },
		OnGetCFilters:  func(p *peer.Peer, m *wire.MsgGetCFilters) { s.appCallback("getcfilters", p, nil) },
		OnGetCFHeaders: func(p *peer.Peer, m *wire.MsgGetCFHeaders) { s.appCallback("getcfheaders", p, nil) },
		OnGetCFCheckpt: func(p *peer.Peer, m *wire.MsgGetCFCheckpt) { s.appCallback("getcfcheckpt", p, nil) },
		OnFeeFilter:    func(p *peer.Peer, m *wire.MsgFeeFilter) { s.appCallback("feefilter", p, nil) },
		OnFilterAdd:    func(p *peer.Peer, m *wire.MsgFilterAdd) { s.appCallback("filteradd", p, nil) },
		OnFilterClear:  func(p *peer.Peer, m *wire.MsgFilterClear) { s.appCallback("filterclear", p, nil) },
		OnFilterLoad:   func(p *peer.Peer, m *wire.MsgFilterLoad) { s.appCallback("filterload", p, nil) },
		OnMerkleBlock:  func(p *peer.Peer, m *wire.MsgMerkleBlock) { s.appCallback("merkleblock", p, nil) },
		OnReject:       func(p *peer.Peer, m *wire.MsgReject) { s.appCallback("reject", p, nil) },
		OnSendHeaders:  func(p *peer.Peer, m *wire.MsgSendHeaders) { s.appCallback("sendheaders", p, nil) },

		// handshake-phase hooks: not application messages
		OnVersion: func(p *peer.Peer, m *wire.MsgVersion) *wire.MsgReject {
			s.ls.mu.Lock()
			s.ls.version++
			rej := s.ls.reject
			s.ls.mu.Unlock()
			s.maybeSleep("version")
			if rej {
				return wire.NewMsgReject("version", wire.RejectNonstandard, "harness says no")
			}
			return nil
		},
		OnVerAck: func(p *peer.Peer, m *wire.MsgVerAck) {
			pv := p.ProtocolVersion()
			s.ls.mu.Lock()
			s.ls.verack++
			s.ls.verackPV = pv
			s.ls.mu.Unlock()
			s.maybeSleep("verack")
			s.ls.mu.Lock()
			s.ls.verackDone++
			s.ls.mu.Unlock()
		},
		OnSendAddrV2: func(p *peer.Peer, m *wire.MsgSendAddrV2) {
			s.ls.mu.Lock()
			s.ls.sendaddr++
			s.ls.mu.Unlock()
		},
		OnRead:  func(p *peer.Peer, n int, m wire.Message, err error) { s.maybeSleep("read") },
		OnWrite: func(p *peer.Peer, n int, m wire.Message, err error) { s.maybeSleep("write") },
	}
}

// ---- yield controller ----

var yieldSites = []string{
	"qm.afterConnected", "qi.afterConnected", "disc.afterFlag", "disc.beforeCloseQuit",
	"qh.beforeDrain", "oh.beforeDone", "oh.beforeDrain",
}

type parked struct {
	site   string
	ch     chan struct{}
	reject bool // the parked goroutine is the input handler inside PushRejectMsg
}

// yielder parks goroutines of the current run at armed sites.
type yielder struct {
	mu      sync.Mutex
	armed   map[string]bool
	parked  []*parked
	hits    map[string]int
	off     bool
	parkLog []string // sites at which a goroutine was parked, not yet reported
	// an input handler waiting in PushRejectMsg(wait) was held between the
	// Connected() test and the channel send of QueueMessage and released only
	// after the disconnect had begun
	rejectRace bool
}

// current is the yield controller of the run in progress.  The hook function
// installed in peer.VerifYield is set once per process and dispatches through
// this pointer, so that installing and removing a run's controller is an
// atomic operation that cannot race with peer goroutines reading the hook.
var current atomic.Pointer[yielder]

var installHook sync.Once

func hookDispatch(site string) {
	if y := current.Load(); y != nil {
		y.hit(site)
	}
}

func (y *yielder) hit(site string) {
	y.mu.Lock()
	y.hits[site]++
	if y.off || !y.armed[site] {
		y.mu.Unlock()
		return
	}
	delete(y.armed, site)
	pk := &parked{site: site, ch: make(chan struct{})}
	if site == "qm.afterConnected" {
		buf := make([]byte, 4096)
		buf = buf[:runtime.Stack(buf, false)]
		pk.reject = bytes.Contains(buf, []byte("PushRejectMsg")) && bytes.Contains(buf, []byte("inHandler"))
	}
	y.parked = append(y.parked, pk)
	y.parkLog = append(y.parkLog, site)
	y.mu.Unlock()
	<-pk.ch // durable block inside the bubble
}

func (y *yielder) arm(site string) {
	y.mu.Lock()
	y.armed[site] = true
	y.mu.Unlock()
}

func (y *yielder) nParked() int {
	y.mu.Lock()
	n := len(y.parked)
	y.mu.Unlock()
	return n
}

func (y *yielder) nArmed() int {
	y.mu.Lock()
	n := len(y.armed)
	y.mu.Unlock()
	return n
}

// release lets parked goroutine i continue and returns its site.
func (y *yielder) release(i int, disconnecting bool) string {
	y.mu.Lock()
	pk := y.parked[i]
	y.parked = append(y.parked[:i], y.parked[i+1:]...)
	if pk.reject && disconnecting {
		y.rejectRace = true
	}
	y.mu.Unlock()
	close(pk.ch)
	return pk.site
}

// disarm stops any further parking.
func (y *yielder) disarm() {
	y.mu.Lock()
	y.off = true
	y.armed = map[string]bool{}
	y.mu.Unlock()
}

// shutdown disarms everything and releases every parked goroutine.
func (y *yielder) shutdown(disconnecting bool) {
	y.mu.Lock()
	y.off = true
	y.armed = map[string]bool{}
	ps := y.parked
	y.parked = nil
	for _, pk := range ps {
		if pk.reject && disconnecting {
			y.rejectRace = true
		}
	}
	y.mu.Unlock()
	for _, pk := range ps {
		close(pk.ch)
	}
}

package peersim

// The scripted remote endpoint and the harness's own (independent) model of
// what a handshake is.  The remote is a list of items that are turned into
// bytes lazily (a self-connection needs the nonce the peer itself sent) and
// handed to simconn in chunks.

import (
	"fmt"
	"bytes"
	"encoding/binary"
	"time"

	"github.com/btcsuite/btcd/wire/v2"

	"verif/harness/simkit"
)

type itemKind int

const (
	itVersion itemKind = iota
	itVerack
	itSendAddrV2
	itWtxid      // "wtxidrelay": valid framing, command unknown to btcd's wire
	itUnknown    // other unknown command, valid framing
	itUnknownBad // unknown command, bad checksum (ambiguous)
	itApp        // a valid application message
	itBadMagic   // a complete valid message carrying another network's magic
	itBadChecksum
	itOversize  // header announcing more than the protocol maximum
	itTruncated // header + part of the payload, then the remote closes
	itGarbage   // bytes that are not a message
	itBadPayload
)

func (k itemKind) String() string {
	return [...]string{"version", "verack", "sendaddrv2", "wtxidrelay", "unknown", "unknown-badcs", "app",
		"badmagic", "badchecksum", "oversize", "truncated", "garbage", "badpayload"}[k]
}

const (
	appPing = iota
	appInv
	appGetData
	appAddr
	appGetAddr
	appTx
	appHeaders
	appNotFound
	appPong
	appReject
	nAppKinds
)

var appCmd = [...]string{"ping", "inv", "getdata", "addr", "getaddr", "tx", "headers", "notfound", "pong", "reject"}

type item struct {
	kind itemKind
	// version
	pv       int32
	services uint64
	echo     bool // use the peer's own nonce (self connection)
	nonce    uint64
	// app / wrapped message
	app   int
	token [32]byte // unique token (hash, or first 8 bytes = nonce)
	inner int      // for badmagic/badchecksum/truncated/badpayload: which message is wrapped (0 version,1 verack,2 ping,3 inv)
	raw   []byte   // garbage / unknown payload

	bytes      []byte // materialised
	start, end int    // offsets in the remote stream
	closeAfter bool
}

// hsPhase is the harness model's handshake phase.
type hsPhase int

const (
	phExpectVersion hsPhase = iota
	phExpectVerack
	phEstablished
	phRefused  // the remote did something that must be refused
	phUnjudged // something ambiguous happened: no claim either way
)

func (p hsPhase) String() string {
	return [...]string{"expect-version", "expect-verack", "established", "refused", "unjudged"}[p]
}

// hsModel is the independent statement of the handshake rules of the
// property: first message must be a valid version of this network that is
// neither a self connection nor obsolete; then only feature negotiation and
// unknown messages until a verack.
type hsModel struct {
	phase        hsPhase
	refuseReason string
	remotePV     int32
	// established-phase facts
	fatalAfter  bool // a message that ends an established connection was delivered
	wrongNetEst bool
}

func (m *hsModel) feed(it *item, allowSelf bool, localPV uint32) {
	switch m.phase {
	case phExpectVersion:
		switch it.kind {
		case itVersion:
			switch {
			case it.echo && !allowSelf:
				m.phase, m.refuseReason = phRefused, "self-connection"
			case it.pv < 209:
				m.phase, m.refuseReason = phRefused, "obsolete-version"
			default:
				m.phase, m.remotePV = phExpectVerack, it.pv
			}
		case itUnknownBad:
			m.phase = phUnjudged
		case itBadMagic:
			m.phase, m.refuseReason = phRefused, "wrong-network"
		case itTruncated:
			// nothing decided until the close; a truncated message can never
			// become a handshake
			m.phase, m.refuseReason = phRefused, "truncated-first-message"
		default:
			m.phase, m.refuseReason = phRefused, "non-version-first:"+it.kind.String()
		}
	case phExpectVerack:
		switch it.kind {
		case itWtxid, itUnknown:
		case itSendAddrV2:
			// BIP155 feature negotiation belongs to protocol version 70016 and
			// later; what a peer does with it below that is not claimed
			if localPV < 70016 || m.remotePV < 70016 {
				m.phase = phUnjudged
			}
		case itVerack:
			m.phase = phEstablished
		case itUnknownBad:
			m.phase = phUnjudged
		case itBadMagic:
			m.phase, m.refuseReason = phRefused, "wrong-network"
		case itVersion:
			m.phase, m.refuseReason = phRefused, "duplicate-version-in-handshake"
		case itApp:
			m.phase, m.refuseReason = phRefused, "app-message-in-handshake"
		default:
			m.phase, m.refuseReason = phRefused, "malformed-in-handshake:"+it.kind.String()
		}
	case phEstablished:
		switch it.kind {
		case itApp, itWtxid, itUnknown, itUnknownBad:
		case itBadMagic:
			m.fatalAfter, m.wrongNetEst = true, true
		default:
			m.fatalAfter = true
		}
	}
}

// promptRefusal reports whether the item, once completely read by a peer in
// the given phase, must make it drop the connection without waiting for
// anything else.
func promptRefusal(before hsPhase, after hsPhase, it *item) bool {
	if after != phRefused || before == phRefused {
		return false
	}
	switch it.kind {
	case itTruncated, itGarbage, itBadPayload:
		return false // the peer may legitimately still be waiting for bytes
	}
	return true
}

// ---- generation ----

type remote struct {
	s       *sim
	magic   uint32
	items   []*item
	next    int    // next item to materialise
	stream  []byte // materialised bytes
	sent    int    // bytes handed to the conn
	model   hsModel
	fedTo   int // items whose last byte has been delivered (fed to the model)
	closed  bool
	shape   string
	localPV uint32
}

func (rm *remote) genVersion(c simkit.Chooser, forceGood bool) *item {
	it := &item{kind: itVersion}
	pvs := []int32{70016, 70017, 70015, 70013, 70012, 70002, 70001, 60002, 60001, 60000, 31402, 209, 80000}
	it.pv = pvs[simkit.Pick(c, "rpv", 30, 8, 6, 8, 4, 8, 4, 6, 4, 4, 3, 5, 3)]
	if !forceGood && c.Bool(120, "rpv-obsolete") {
		it.pv = []int32{208, 106, 1, 0}[c.Intn(4, "rpv-obs")]
	}
	it.services = []uint64{1 | 8, 1, 0, 1 | 8 | 1024}[simkit.Pick(c, "rsvc", 6, 3, 1, 1)]
	if !forceGood && c.Bool(150, "echo") {
		it.echo = true
	}
	it.nonce = binary.LittleEndian.Uint64(c.Bytes(8, "rnonce")) | 1<<62
	return it
}

func (rm *remote) genApp(c simkit.Chooser, pv uint32) *item {
	it := &item{kind: itApp}
	it.app = simkit.Pick(c, "app", 6, 4, 3, 2, 2, 2, 1, 1, 1, 2)
	if it.app == appPong && pv <= 60000 {
		it.app = appInv
	}
	if it.app == appReject && pv < 70002 {
		it.app = appInv // (reject messages exist from protocol version 70002 on)
	}
	copy(it.token[:], c.Bytes(32, "apptok"))
	it.token[31] |= 0x80 // never equal to a caller token (those have the top bit clear)
	return it
}

func (rm *remote) genBad(c simkit.Chooser) *item {
	k := []itemKind{itBadMagic, itBadChecksum, itOversize, itTruncated, itGarbage, itBadPayload, itUnknownBad}[simkit.Pick(c, "bad", 4, 3, 2, 2, 2, 1, 1)]
	it := &item{kind: k}
	it.inner = c.Intn(4, "inner")
	copy(it.token[:], c.Bytes(32, "badtok"))
	it.token[31] |= 0x80
	switch k {
	case itGarbage:
		n := simkit.Range(c, 1, 60, "garbage-n")
		it.raw = c.Bytes(n, "garbage")
	case itUnknownBad:
		it.raw = c.Bytes(simkit.Range(c, 0, 20, "unk-n"), "unk")
	case itTruncated:
		it.closeAfter = true
	}
	return it
}

func (rm *remote) genFiller(c simkit.Chooser) *item {
	switch simkit.Pick(c, "filler", 4, 3, 3) {
	case 0:
		return &item{kind: itSendAddrV2}
	case 1:
		return &item{kind: itWtxid}
	default:
		it := &item{kind: itUnknown}
		it.raw = c.Bytes(simkit.Range(c, 0, 40, "unk-n"), "unk")
		if rm.s != nil && rm.s.k.chunkMode != 1 && rm.s.k.chunkMode != 2 && c.Bool(150, "unk-big") {
			// a payload the peer has to skip in several reads: exactly at,
			// just below and just above the size of one skip buffer
			n := []int{10239, 10240, 10241, 20480, 20481}[c.Intn(5, "unk-big-n")]
			big := make([]byte, n)
			copy(big, it.raw)
			it.raw = big
			rm.s.r.Probe("unknown-message-with-large-payload")
		}
		return it
	}
}

// generate draws the script.  Shape 0 (the simplest choice) is a clean
// handshake followed by a few application messages.
func (rm *remote) generate(c simkit.Chooser, localPV uint32) {
	rm.localPV = localPV
	shape := simkit.Pick(c, "shape", 40, 25, 20, 8, 7)
	switch shape {
	case 0, 2:
		// clean handshake; shape 2 adds a violation after it
		rm.shape = "clean"
		v := rm.genVersion(c, true)
		rm.items = append(rm.items, v)
		for n := simkit.Pick(c, "fillers", 5, 3, 2, 1); n > 0; n-- {
			rm.items = append(rm.items, rm.genFiller(c))
		}
		rm.items = append(rm.items, &item{kind: itVerack})
		pv := uint32(v.pv)
		if localPV < pv {
			pv = localPV
		}
		for n := simkit.Range(c, 0, 5, "post-n"); n > 0; n-- {
			if c.Bool(150, "post-unknown") {
				rm.items = append(rm.items, rm.genFiller(c))
				if rm.items[len(rm.items)-1].kind == itSendAddrV2 {
					rm.shape = "clean+post-violation"
				}
			} else {
				rm.items = append(rm.items, rm.genApp(c, pv))
			}
		}
		if shape == 2 {
			rm.shape = "clean+post-violation"
			switch simkit.Pick(c, "postviol", 3, 2, 2, 2) {
			case 0:
				rm.items = append(rm.items, rm.genBad(c))
			case 1:
				rm.items = append(rm.items, rm.genVersion(c, true))
			case 2:
				rm.items = append(rm.items, &item{kind: itVerack})
			default:
				rm.items = append(rm.items, &item{kind: itSendAddrV2})
			}
			for n := simkit.Range(c, 0, 2, "postpost-n"); n > 0; n-- {
				rm.items = append(rm.items, rm.genApp(c, pv))
			}
		}
	case 1:
		// refusal candidates: something is wrong before the verack
		rm.shape = "refusal"
		switch simkit.Pick(c, "refusal", 3, 3, 3, 2, 2, 2) {
		case 0: // possibly obsolete / self connection version
			rm.items = append(rm.items, rm.genVersion(c, false))
		case 1: // first message is not a version
			switch simkit.Pick(c, "first", 3, 2, 2, 1) {
			case 0:
				rm.items = append(rm.items, rm.genApp(c, 70016))
			case 1:
				rm.items = append(rm.items, &item{kind: itVerack})
			case 2:
				rm.items = append(rm.items, rm.genFiller(c))
			default:
				rm.items = append(rm.items, rm.genBad(c))
			}
			rm.items = append(rm.items, rm.genVersion(c, true))
		case 2: // application message between version and verack
			rm.items = append(rm.items, rm.genVersion(c, true))
			if c.Bool(300, "filler-first") {
				rm.items = append(rm.items, rm.genFiller(c))
			}
			rm.items = append(rm.items, rm.genApp(c, 70016))
		case 3: // duplicated version in the handshake
			rm.items = append(rm.items, rm.genVersion(c, true), rm.genVersion(c, true))
		case 4: // malformed in the handshake
			rm.items = append(rm.items, rm.genVersion(c, true))
			rm.items = append(rm.items, rm.genBad(c))
		default: // malformed version
			b := rm.genBad(c)
			b.inner = 0
			rm.items = append(rm.items, b)
		}
		rm.items = append(rm.items, &item{kind: itVerack})
		for n := simkit.Range(c, 0, 2, "post-n"); n > 0; n-- {
			rm.items = append(rm.items, rm.genApp(c, 70016))
		}
	case 3:
		// anything goes
		rm.shape = "soup"
		for n := simkit.Range(c, 1, 8, "soup-n"); n > 0; n-- {
			switch simkit.Pick(c, "soup", 3, 3, 2, 3, 2) {
			case 0:
				rm.items = append(rm.items, rm.genVersion(c, false))
			case 1:
				rm.items = append(rm.items, &item{kind: itVerack})
			case 2:
				rm.items = append(rm.items, rm.genFiller(c))
			case 3:
				rm.items = append(rm.items, rm.genApp(c, 70016))
			default:
				rm.items = append(rm.items, rm.genBad(c))
			}
		}
	default:
		// silent remote: sends nothing (negotiate timeout)
		rm.shape = "silent"
	}
}

func (rm *remote) innerMsg(it *item, magic uint32) []byte {
	switch it.inner {
	case 0:
		v := &item{kind: itVersion, pv: 70016, services: 9, nonce: binary.LittleEndian.Uint64(it.token[:8]) | 1<<62}
		return frame(magic, "version", rm.versionPayload(v))
	case 1:
		return frame(magic, "verack", nil)
	case 2:
		return frame(magic, "ping", it.token[:8])
	default:
		return frame(magic, "inv", invPayload([]uint32{1}, [][32]byte{it.token}))
	}
}

func (rm *remote) versionPayload(it *item) []byte {
	me := wire.NewNetAddressIPPort([]byte{10, 0, 0, 2}, 8333, wire.ServiceFlag(it.services))
	you := wire.NewNetAddressIPPort([]byte{10, 0, 0, 1}, 18555, 0)
	nonce := it.nonce
	if it.echo {
		if n, ok := rm.s.ownNonce(); ok {
			nonce = n
		} else {
			it.echo = false
		}
	}
	it.nonce = nonce
	mv := wire.NewMsgVersion(me, you, nonce, 100)
	mv.ProtocolVersion = it.pv
	mv.Services = wire.ServiceFlag(it.services)
	mv.UserAgent = "/remote:0.1/"
	mv.Timestamp = time.Unix(time.Now().Unix(), 0)
	var b bytes.Buffer
	if err := mv.BtcEncode(&b, wire.ProtocolVersion, wire.BaseEncoding); err != nil {
		panic("harness: version encode: " + err.Error())
	}
	return b.Bytes()
}

// appPayload is the harness's own encoding of the application messages the
// remote sends, for the negotiated protocol version pv.
func appPayload(it *item, pv uint32) []byte {
	switch it.app {
	case appPing:
		if pv > 60000 {
			return append([]byte(nil), it.token[:8]...)
		}
		return nil
	case appPong:
		return append([]byte(nil), it.token[:8]...)
	case appInv, appGetData, appNotFound:
		return invPayload([]uint32{1 + uint32(it.token[0]&1)}, [][32]byte{it.token})
	case appAddr:
		var o []byte
		o = append(o, 1)
		if pv >= 31402 {
			o = append(o, le32(uint32(time.Now().Unix()))...)
		}
		o = append(o, le64(1)...)
		o = append(o, 0, 0, 0, 0, 0, 0, 0, 0, 0, 0, 0xff, 0xff, 10, it.token[0], it.token[1], it.token[2])
		o = append(o, 0x20, 0x8d) // port, big endian
		return o
	case appGetAddr:
		return nil
	case appTx:
		var o []byte
		o = append(o, le32(1)...)
		o = append(o, 1)
		o = append(o, it.token[:]...)
		o = append(o, le32(0)...)
		o = append(o, 0)
		o = append(o, le32(0xffffffff)...)
		o = append(o, 1)
		o = append(o, le64(1000)...)
		o = append(o, 1, 0x51)
		o = append(o, le32(0)...)
		return o
	case appHeaders:
		return []byte{0}
	case appReject:
		// the remote did not like a transaction of ours; the reason carries
		// characters a log must not reproduce
		reason := fmt.Sprintf("<b>bad&%x\x00\x1b[2J", it.token[:6+int(it.token[1]%40)%26])
		o := []byte{2, 't', 'x', 0x10 + it.token[0]&3, byte(len(reason))}
		o = append(o, reason...)
		o = append(o, it.token[:]...)
		return o
	}
	return nil
}

// materialise turns the next item into bytes.
func (rm *remote) materialise(it *item) {
	otherMagic := uint32(0x0709110b) // testnet3
	if rm.magic == otherMagic {
		otherMagic = 0xd9b4bef9 // mainnet
	}
	pv := rm.localPV
	if rm.model.remotePV > 0 && uint32(rm.model.remotePV) < pv {
		pv = uint32(rm.model.remotePV)
	}
	switch it.kind {
	case itVersion:
		it.bytes = frame(rm.magic, "version", rm.versionPayload(it))
	case itVerack:
		it.bytes = frame(rm.magic, "verack", nil)
	case itSendAddrV2:
		it.bytes = frame(rm.magic, "sendaddrv2", nil)
	case itWtxid:
		it.bytes = frame(rm.magic, "wtxidrelay", nil)
	case itUnknown:
		it.bytes = frame(rm.magic, "verifxyz", it.raw)
	case itUnknownBad:
		b := frame(rm.magic, "verifxyz", it.raw)
		b[20] ^= 0x55
		it.bytes = b
	case itApp:
		it.bytes = frame(rm.magic, appCmd[it.app], appPayload(it, pv))
	case itBadMagic:
		it.bytes = rm.innerMsg(it, otherMagic)
	case itBadChecksum:
		// (inner 1: a verack - no payload, but the checksum field must still
		// be the checksum of the empty payload)
		b := rm.innerMsg(it, rm.magic)
		b[21] ^= 0xa5
		it.bytes = b
	case itOversize:
		b := rm.innerMsg(it, rm.magic)
		binary.LittleEndian.PutUint32(b[16:20], 4*1000*1000+1+uint32(it.token[0]))
		it.bytes = b[:hdrSize]
	case itTruncated:
		if it.inner == 1 {
			it.inner = 3
		}
		b := rm.innerMsg(it, rm.magic)
		cut := hdrSize + int(it.token[1])%(len(b)-hdrSize)
		it.bytes = b[:cut]
	case itGarbage:
		g := append([]byte(nil), it.raw...)
		if len(g) >= 4 && binary.LittleEndian.Uint32(g[:4]) == rm.magic {
			g[0] ^= 0xff
		}
		it.bytes = g
	case itBadPayload:
		// an inv whose count does not match its length
		p := invPayload([]uint32{1}, [][32]byte{it.token})
		p[0] = 3
		it.bytes = frame(rm.magic, "inv", p)
	}
	it.start = len(rm.stream)
	rm.stream = append(rm.stream, it.bytes...)
	it.end = len(rm.stream)
}

// remaining reports whether there is anything left to deliver.
func (rm *remote) remaining() bool {
	return !rm.closed && (rm.sent < len(rm.stream) || rm.next < len(rm.items))
}

// nextChunk returns up to max bytes of the stream, materialising the next
// item when needed.  atBoundary limits the chunk to the current item.
func (rm *remote) nextChunk(max int, wholeItem bool) []byte {
	if rm.sent == len(rm.stream) {
		if rm.next >= len(rm.items) {
			return nil
		}
		rm.materialise(rm.items[rm.next])
		rm.next++
	}
	end := len(rm.stream)
	if !wholeItem && end-rm.sent > max {
		end = rm.sent + max
	}
	b := rm.stream[rm.sent:end]
	rm.sent = end
	return b
}

// midMessage reports whether the delivered prefix ends strictly inside an
// item.
func (rm *remote) midMessage() bool {
	for _, it := range rm.items[:rm.next] {
		if rm.sent > it.start && rm.sent < it.end {
			return true
		}
	}
	return false
}

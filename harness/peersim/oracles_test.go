package peersim

// The oracles of C18 (DESIGN §5):
//
//	O1 no application-message listener before the version/verack exchange
//	O2 negotiated version == min(local, remote advertised)
//	O3 self connection / wrong network / obsolete version / non-version first
//	   message / handshake-phase violation  =>  no OnVerAck, peer disconnects
//	O4 queued messages appear on the wire in queue order, every done channel
//	   gets exactly one signal and only after the bytes were written (or after
//	   the disconnect)
//	O5 after any disconnect: WaitForDisconnect returns, no goroutine of the
//	   peer remains, every send queued before the disconnect is signalled
//	O6 race detector (driver side)
//	O7 liveness: a correct remote completes the handshake; pings are answered

import (
	"bytes"
	"fmt"
	"runtime"
	"sort"
	"strings"
	"sync/atomic"
	"testing/synctest"
	"time"
)

func (o *op) wireKey() string {
	switch o.mk {
	case mkPing, mkPong:
		return mkCmd[o.mk] + ":" + string(o.token[:8])
	case mkFeeFilter:
		return mkCmd[o.mk] + ":" + string(le64(leU64(o.token[:8])>>1))
	default:
		return mkCmd[o.mk] + ":" + string(o.token[:])
	}
}

func wireMsgKey(m *wireMsg) (string, bool) {
	switch m.cmd {
	case "ping", "pong", "feefilter":
		if len(m.payload) == 8 {
			return m.cmd + ":" + string(m.payload), true
		}
	case "inv", "getdata", "notfound":
		if _, hs, ok := parseInvPayload(m.payload); ok && len(hs) == 1 {
			return m.cmd + ":" + string(hs[0][:]), true
		}
	case "getheaders":
		if len(m.payload) == 4+1+32+32 {
			return m.cmd + ":" + string(m.payload[5:37]), true
		}
	case "reject":
		// (only rejects of a transaction carry a hash: the ones the
		// application queues; the peer's own are about "malformed"/"version")
		if n := len(m.payload); n >= 3+1+1+32 && m.payload[0] == 2 && string(m.payload[1:3]) == "tx" {
			return m.cmd + ":" + string(m.payload[n-32:]), true
		}
	}
	return "", false
}

// indexWire splits what the peer wrote so far (independent parser) and
// indexes the new messages.
func (s *sim) indexWire() {
	msgs, _ := splitStream(s.conn.Written())
	for i := s.parsedTo; i < len(msgs); i++ {
		m := &msgs[i]
		if m.magic != uint32(s.k.params.Net) || !m.csOK {
			s.r.Violate(prop, "O4-framing", "", "message %d (%q) written by the peer has magic %08x (want %08x) checksum-ok=%v",
				i, m.cmd, m.magic, uint32(s.k.params.Net), m.csOK)
		}
		if k, ok := wireMsgKey(m); ok {
			s.outKey[k] = append(s.outKey[k], i)
		}
		if m.cmd == "inv" {
			if _, hs, ok := parseInvPayload(m.payload); ok {
				for _, h := range hs {
					s.invOnWire[h]++
				}
			}
		}
		if m.cmd == "ping" {
			s.lastPeerPing = append([]byte(nil), m.payload...)
		}
	}
	s.out = msgs
	s.parsedTo = len(msgs)
}

func (s *sim) wirePos(o *op) []int { return s.outKey[o.wireKey()] }

// disconnectFlagged: the peer has been asked to disconnect or has decided to,
// as far as the harness can observe at a quiescent point.
func (s *sim) disconnectFlagged() bool {
	if s.associated && !s.p.Connected() {
		return true
	}
	for _, o := range s.ops {
		if o.kind == opDisconnect && atomic.LoadInt64(&o.inv) != 0 {
			return true
		}
	}
	return false
}

// observe runs after every step at a quiescent point: it updates the
// bookkeeping, evaluates the per-step oracles and returns the observation
// summary for the event log (schedule-independent facts only).
func (s *sim) observe() string {
	r := s.r
	// callers whose call returned are idle again
	nBusy := 0
	for _, c := range s.callers {
		if c.busy != nil && c.busy.returned() {
			c.busy = nil
		}
		if c.busy != nil {
			nBusy++
		}
	}
	s.indexWire()

	// handshake completion as seen by the application
	s.ls.mu.Lock()
	verack, verackPV := s.ls.verack, s.ls.verackPV
	app := s.ls.app
	slowFired := s.ls.slowFired
	s.ls.mu.Unlock()
	for ; s.slowFiredSeen < slowFired; s.slowFiredSeen++ {
		r.Fault("slow_listener")
	}

	s.y.mu.Lock()
	parks := s.y.parkLog
	s.y.parkLog = nil
	s.y.mu.Unlock()
	for _, site := range parks {
		r.Fault("yield_park:" + site)
	}

	// O1
	for ; s.appSeen < len(app); s.appSeen++ {
		rec := app[s.appSeen]
		if !rec.vk || !rec.va {
			r.Violate(prop, "O1-listener-before-handshake", "", "listener On%s fired with VersionKnown=%v VerAckReceived=%v", rec.name, rec.vk, rec.va)
		}
		if !rec.hVer || !rec.hVerack {
			r.Violate(prop, "O1-listener-before-handshake", "", "listener On%s fired although the remote had delivered valid-version=%v verack=%v", rec.name, rec.hVer, rec.hVerack)
		}
		s.appLog = append(s.appLog, rec.name)
	}

	model := &s.rm.model
	if verack > 0 && s.estStep < 0 {
		s.estStep = s.step
		s.expectedPV = s.k.effPV
		if model.remotePV >= 0 && uint32(model.remotePV) < s.expectedPV {
			s.expectedPV = uint32(model.remotePV)
		}
		// O3: a handshake the property says must be refused has completed
		switch model.phase {
		case phRefused:
			r.Violate(prop, "O3-refusal", "", "OnVerAck fired although the remote must be refused: %s (script %s)", model.refuseReason, s.scriptString())
		case phExpectVersion, phExpectVerack:
			r.Violate(prop, "O3-refusal", "", "OnVerAck fired before the remote delivered a version and a verack (model phase %s)", model.phase)
		}
		if model.phase == phEstablished {
			// O2 at the moment the application learns of the handshake
			if verackPV != s.expectedPV {
				r.Violate(prop, "O2-negotiated-version", "", "ProtocolVersion()=%d inside OnVerAck, want min(local %d, remote %d)=%d", verackPV, s.k.effPV, model.remotePV, s.expectedPV)
			}
			if model.remotePV >= 0 && uint32(model.remotePV) < s.k.effPV {
				r.Probe("version negotiated down")
			}
			if s.k.chunkMode == 1 {
				r.Probe("handshake completed on 1-byte chunks")
			}
			if s.rm.items[0].echo {
				r.Probe("self connection accepted with AllowSelfConns")
			}
		}
	}
	if s.established() && model.phase == phEstablished {
		if pv := s.p.ProtocolVersion(); pv != s.expectedPV {
			r.Violate(prop, "O2-negotiated-version", "", "ProtocolVersion()=%d after the handshake, want min(local %d, remote %d)=%d", pv, s.k.effPV, model.remotePV, s.expectedPV)
		}
	}

	// disconnect bookkeeping
	connected := s.associated && s.p.Connected()
	if s.discStep < 0 && s.disconnectFlagged() {
		s.discStep = s.step
		s.lossStamp = s.stepStamp
		if s.stepPure && !s.unencodable {
			var first int64
			for _, o := range s.ops {
				if o.kind == opDisconnect && o.step == s.step {
					if iv := atomic.LoadInt64(&o.inv); iv != 0 && (first == 0 || iv < first) {
						first = iv
					}
				}
			}
			if first != 0 {
				s.lossStamp = first
			}
		}
		switch {
		case s.stepKind == "call" || s.stepKind == "burst":
			s.noteCause("Disconnect()")
		case s.stepKind == "remote-close":
			s.noteCause("remote-close")
		case s.stepKind == "deliver":
			s.noteCause("protocol")
		case s.stepKind == "release":
			s.noteCause("after-release")
		case s.stepKind == "associate":
			s.noteCause("at-associate")
		}
		if s.associated && !s.established() {
			r.Probe("disconnect during handshake")
		}
		if model.phase == phRefused && model.refuseReason == "self-connection" {
			r.Probe("self-connection detected")
		}
	}

	// O4: done channels
	nDone := s.pollDones(connected)
	nWire := 0
	for _, o := range s.ops {
		if o.kind == opQueueMsg {
			if n := len(s.wirePos(o)); n > 0 {
				nWire++
				if n > 1 {
					r.Violate(prop, "O4-fifo", "", "%s was transmitted %d times", opDesc(o), n)
				}
			}
		}
	}

	// O3: bounded time.  Whatever the remote does, a handshake that the
	// property says must be refused is over once negotiateTimeout has passed.
	if s.associated && model.phase == phRefused && !s.established() && connected &&
		time.Since(s.assocAt) > 31*time.Second && s.y.nParked() == 0 {
		r.Violate(prop, "O3-refusal", "", "remote must be refused (%s) but the peer is still connected %s after the connection was made", model.refuseReason, time.Since(s.assocAt))
	}

	// abstract state for the distinct-states measure
	qd := "0"
	if d := len(s.ops) - nDone; d > 8 {
		qd = "many"
	} else if d > 0 {
		qd = "some"
	}
	r.State("dir=%v phase=%s est=%v conn=%v q=%s cause=%s parked=%d stalled=%v", s.k.inbound, model.phase, s.established(), connected, qd, s.discCause, s.y.nParked(), s.stalled)

	apps := ""
	if n := len(s.appLog); n > s.appLogged {
		apps = " lsn=" + strings.Join(s.appLog[s.appLogged:], ",")
		s.appLogged = n
	}
	// Not in the log: how many queued messages made it onto the wire.  Whether
	// a message that is in flight when the peer decides to disconnect is still
	// written or dropped is decided by the order in which two goroutines of
	// the peer run; its done signal arrives either way.
	_ = nWire
	// Also not in the log once the peer is shutting down or a goroutine is
	// parked at a yield site: how many done signals have arrived SO FAR.  The
	// peer's handlers drain their queues from selects with several ready
	// cases (quit, send-done, output queue), which the Go runtime resolves at
	// random; every signal still arrives (the final line and O5 count them).
	done := "-"
	if connected && s.y.nParked() == 0 {
		done = fmt.Sprint(nDone)
	}
	return fmt.Sprintf("conn=%v vk=%v va=%v est=%v busy=%d done=%s parked=%d%s",
		connected, s.p.VersionKnown(), s.p.VerAckReceived(), s.established(), nBusy, done, s.y.nParked(), apps)
}

func (s *sim) scriptString() string {
	var b []string
	for _, it := range s.rm.items {
		d := it.kind.String()
		if it.kind == itVersion {
			d += fmt.Sprintf("(pv=%d,echo=%v)", it.pv, it.echo)
		}
		if it.kind == itApp {
			d += "(" + appCmd[it.app] + ")"
		}
		b = append(b, d)
	}
	return strings.Join(b, " ")
}

// pollDones counts the signals that have arrived on the done channels and
// evaluates the exactly-once and done-after-write oracles.
func (s *sim) pollDones(connected bool) int {
	r := s.r
	nDone := 0
	for _, o := range s.ops {
		if o.kind != opQueueMsg || o.nilDone {
			continue
		}
	drain:
		for {
			select {
			case <-o.done:
				o.dones++
				if o.dones == 1 {
					o.doneStep = s.step
					o.lateDone = s.draining
				}
			default:
				break drain
			}
		}
		if o.dones > 1 {
			r.Violate(prop, "O4-done-exactly-once", "", "%s: done channel signalled %d times", opDesc(o), o.dones)
		}
		if o.dones == 1 {
			nDone++
			if o.doneStep == s.step && o.assoc && connected && len(s.wirePos(o)) == 0 {
				r.Violate(prop, "O4-done-after-write", "", "%s: done signalled while the peer is connected and not disconnecting, but its bytes are not on the wire", opDesc(o))
			}
		}
	}
	return nDone
}

// quiet: no fault that can legitimately delay the peer is in effect.
func (s *sim) quiet() bool {
	return !s.slowEnabled && s.y.nParked() == 0 && s.y.nArmed() == 0 && !s.stalled && !s.everStalled &&
		s.conn.Unconsumed() == 0 && !s.discIssued && !s.remoteClosed && !s.k.blockErr && !s.ls.reject
}

// judgeDelivered evaluates the oracles that are tied to the delivery of a
// complete item (called after the step's quiescence).
func (s *sim) judgeDelivered(completed []*item, before []hsPhase) {
	r := s.r
	model := &s.rm.model
	for i, it := range completed {
		ph := before[i]
		after := model.phase
		if i+1 < len(before) {
			after = before[i+1]
		}
		// O3 prompt refusal: the offending message was read completely and
		// nothing can legitimately hold the peer up
		if promptRefusal(ph, after, it) && s.associated && s.quiet() && s.conn.PendingRead() == 0 {
			s.refusalJudged = true
			r.Sig("refusal=" + model.refuseReason)
			if s.p.Connected() {
				r.Violate(prop, "O3-refusal", "", "remote must be refused (%s) and the offending message was read, but the peer is still connected", model.refuseReason)
			}
		}
		// established connection: traffic of another network
		if ph == phEstablished && it.kind == itBadMagic && s.established() && s.quiet() && s.conn.PendingRead() == 0 {
			s.refusalJudged = true
			r.Sig("refusal=wrong-network-established")
			if s.p.Connected() {
				r.Violate(prop, "O3-refusal", "", "a message of another network was read on an established connection but the peer is still connected")
			}
		}
		// O7 handshake liveness
		// (a disconnect nobody asked for - no Disconnect call, no remote
		// close, no timeout yet - is the peer refusing the correct remote)
		unprovoked := s.discStep >= 0 && s.discCause == "protocol" && !s.remoteClosed
		if it.kind == itVerack && ph == phExpectVerack && after == phEstablished && s.associated && s.quiet() &&
			(s.discStep < 0 || unprovoked) && time.Since(s.assocAt) < 25*time.Second && (s.conn.PendingRead() == 0 || unprovoked) {
			s.hsJudged = true
			bad := !s.established() || !s.p.Connected() || !s.p.VersionKnown() || !s.p.VerAckReceived()
			if unprovoked {
				// the peer hung up on its own: only a handshake it never
				// completed is judged here (a later item of the script may
				// have been a reason to disconnect afterwards)
				bad = !s.established()
			}
			if bad {
				r.Violate(prop, "O7-handshake-liveness", "", "a correct remote sent version and verack %s after connecting, no fault was active, but OnVerAck fired=%v Connected=%v VersionKnown=%v VerAckReceived=%v (script %s)",
					time.Since(s.assocAt), s.established(), s.p.Connected(), s.p.VersionKnown(), s.p.VerAckReceived(), s.scriptString())
			}
		}
		// O7 ping liveness
		if it.kind == itApp && it.app == appPing && ph == phEstablished && s.established() && !model.fatalAfter &&
			s.expectedPV > 60000 && s.quiet() && s.conn.PendingRead() == 0 && s.discStep < 0 && s.p.Connected() && !s.unencodable {
			s.pongJudged++
			want := "pong:" + string(it.token[:8])
			if len(s.outKey[want]) == 0 {
				r.Violate(prop, "O7-ping-answered", "", "the remote's ping %x was read on a healthy connection but no pong with that nonce was written", it.token[:8])
			}
			r.Probe("ping answered")
		}
	}
}

// peerGoroutines returns the peer frames of goroutines of this bubble.
func peerGoroutines() []string {
	buf := make([]byte, 1<<20)
	n := runtime.Stack(buf, true)
	gs := strings.Split(string(buf[:n]), "\n\n")
	bubble := ""
	if len(gs) > 0 {
		// the first goroutine in the dump is the caller
		if i := strings.Index(gs[0], "synctest bubble "); i >= 0 {
			rest := gs[0][i:]
			if j := strings.IndexAny(rest, "]\n,"); j > 0 {
				bubble = rest[:j]
			}
		}
	}
	var out []string
	for _, g := range gs[1:] {
		hdr := g
		if i := strings.IndexByte(g, '\n'); i >= 0 {
			hdr = g[:i]
		}
		if bubble == "" || !strings.Contains(hdr, bubble+"]") && !strings.Contains(hdr, bubble+",") {
			continue
		}
		if !strings.Contains(g, "peer.(*Peer)") {
			continue
		}
		var frames []string
		for _, l := range strings.Split(g, "\n") {
			if strings.Contains(l, "peer.(*Peer)") && !strings.HasPrefix(l, "\t") && !strings.HasPrefix(l, "created by") {
				if i := strings.Index(l, "peer.(*Peer)"); i >= 0 {
					l = l[i:]
				}
				if i := strings.IndexByte(l, '('); i >= 0 {
					if j := strings.Index(l[i+1:], "("); j >= 0 {
						l = l[:i+1+j]
					}
				}
				frames = append(frames, l)
			}
		}
		state := ""
		if i := strings.IndexByte(hdr, '['); i >= 0 {
			state = hdr[i+1:]
			if j := strings.IndexAny(state, ",(]"); j >= 0 {
				state = state[:j]
			}
			state = strings.TrimSpace(state)
		}
		out = append(out, strings.Join(frames, "<-")+" ["+state+"]")
	}
	sort.Strings(out)
	return out
}

func (s *sim) finalOracles() {
	r := s.r
	model := &s.rm.model
	pv := s.expectedPV
	if !s.established() {
		pv = s.negotiatedGuess()
	}

	// O5: the peer is down, the waiter returned, no goroutine of it remains
	if s.associated && s.p.Connected() {
		r.Violate(prop, "O5-disconnects", "", "the peer is still connected after Disconnect/connection loss and 5 simulated minutes")
	}
	if s.waiterStarted && !s.waiterDone.Load() {
		r.Violate(prop, "O5-waitfordisconnect", "", "WaitForDisconnect has not returned 5 simulated minutes after the disconnect (cause %s)", s.discCause)
	}
	stuckOut := false
	if gs := peerGoroutines(); len(gs) > 0 {
		known := ""
		onlyReject, onlyStallSend := true, true
		for _, g := range gs {
			if g != "peer.(*Peer).PushRejectMsg<-peer.(*Peer).inHandler [chan receive]" {
				onlyReject = false
			}
			if g != "peer.(*Peer).inHandler [chan send]" && g != "peer.(*Peer).outHandler [chan send]" {
				onlyStallSend = false
			}
		}
		s.y.mu.Lock()
		race := s.y.rejectRace
		s.y.mu.Unlock()
		switch {
		case onlyReject && race:
			// the input handler was inside QueueMessage, past the Connected()
			// test, while a disconnect ran to completion; it now waits for a done
			// signal nobody will send
			known = "inhandler-pushreject-waits-after-concurrent-disconnect"
		case onlyStallSend:
			// the only channel inHandler/outHandler send on from their own frame
			// (other than buffered done/sendDone slots) is stallControl, and the
			// stall handler, its only reader, is gone
			known = "stallhandler-gone-handler-blocked-on-stallcontrol"
		}
		// Whether the early exit of the stall handler (KF-C18-3) leaves a
		// goroutine behind depends on select choices inside the peer.  The
		// determinism self-test compares event logs, so there the listed
		// finding is counted but leaves no trace in the log or on the clock.
		quietKF3 := detMode && known == "stallhandler-gone-handler-blocked-on-stallcontrol" &&
			r.Known != nil && r.Known.Match(prop, known) != ""
		if quietKF3 {
			r.Count("kf3_in_determinism_mode", 1)
			for i := 0; i < 200 && len(peerGoroutines()) > 0; i++ {
				s.p.VerifDrainInternalQueues()
				synctest.Wait()
			}
			for _, o := range s.ops {
				if o.kind == opQueueMsg && !o.nilDone && o.dones == 0 {
					select {
					case <-o.done:
						o.dones = 1
					default:
					}
				}
			}
			gs = nil
		}
		if len(gs) > 0 {
			r.Violate(prop, "O5-goroutines-end", known, "%d goroutine(s) still inside the peer 5 simulated minutes after the disconnect (cause %s): %s", len(gs), s.discCause, strings.Join(gs, " | "))
			// only reached for a listed known finding: let the stuck goroutines
			// finish so that the bubble can end.  Signals that only arrive now are
			// marked late: the peer on its own would never have sent them.
			s.draining = true
			stuckOut = onlyStallSend
			for i := 0; i < 20 && len(peerGoroutines()) > 0; i++ {
				s.p.VerifDrainInternalQueues()
				time.Sleep(time.Minute)
				synctest.Wait()
			}
			if gs2 := peerGoroutines(); len(gs2) > 0 {
				r.Violate(prop, "O5-goroutines-end", "", "%d goroutine(s) still inside the peer after the harness drained its internal queues: %s", len(gs2), strings.Join(gs2, " | "))
			}
			s.pollDones(false)
		}
	}

	// O3 final: a refused remote never got a handshake
	if model.phase == phRefused {
		s.refusalJudged = true
		if !s.established() {
			// already checked when OnVerAck fires; here the run is simply counted
			r.Sig("refused=" + model.refuseReason)
		}
	}

	// O4/O5: done signals
	for _, o := range s.ops {
		if o.kind != opQueueMsg || o.nilDone {
			continue
		}
		ret := atomic.LoadInt64(&o.ret)
		before := ret != 0 && ret < s.lossStamp
		if before && o.dones == 1 && o.lateDone {
			known := ""
			if stuckOut {
				// the message was in the hands of an output handler that was stuck
				// for good (see the goroutine oracle above)
				known = "stallhandler-gone-handler-blocked-on-stallcontrol"
			}
			r.Violate(prop, "O5-queued-before-disconnect-signalled", known,
				"%s returned before the disconnect (cause %s) but its done signal only arrived after the harness unblocked a stuck goroutine of the peer", opDesc(o), s.discCause)
		}
		if before && o.dones != 1 {
			known := ""
			why := ""
			if o.assoc && !o.estAtIssue {
				// queued between AssociateConnection and the end of the
				// handshake: the handlers that drain the queues only start after a
				// successful negotiation
				known = "prehandshake-queue-never-signalled"
				why = " [queued before the handshake completed]"
			}
			r.Violate(prop, "O5-queued-before-disconnect-signalled", known,
				"%s returned (stamp %d) before the disconnect (stamp %d, cause %s) but its done channel holds %d signals after the peer went down%s",
				opDesc(o), ret, s.lossStamp, s.discCause, o.dones, why)
		}
	}

	// O4: order on the wire
	type placed struct {
		o   *op
		pos int
	}
	var on []placed
	for _, o := range s.ops {
		if o.kind == opQueueMsg {
			if p := s.wirePos(o); len(p) > 0 {
				on = append(on, placed{o, p[0]})
				// content: the payload is the one that was queued
				want, ok := o.expectedPayload(pv)
				if ok && !bytes.Equal(s.out[p[0]].payload, want) {
					r.Violate(prop, "O4-content", "", "%s: payload on the wire %x differs from the queued message %x", opDesc(o), s.out[p[0]].payload, want)
				}
			}
		}
	}
	precedes := func(a, b *op) bool {
		if a.caller == b.caller {
			return a.idx < b.idx
		}
		ra := atomic.LoadInt64(&a.ret)
		return ra != 0 && ra < atomic.LoadInt64(&b.inv)
	}
	for _, a := range on {
		for _, b := range on {
			if a.o != b.o && precedes(a.o, b.o) && a.pos > b.pos {
				r.Violate(prop, "O4-fifo", "", "%s was queued before %s but appears after it on the wire (positions %d, %d)", opDesc(a.o), opDesc(b.o), a.pos, b.pos)
			}
		}
	}
	for _, b := range on {
		for _, a := range s.ops {
			if a.kind != opQueueMsg || a == b.o || !a.assoc || len(s.wirePos(a)) > 0 {
				continue
			}
			if _, ok := a.expectedPayload(pv); !ok {
				continue
			}
			if a.mk == mkPing && pv <= 60000 {
				continue
			}
			if precedes(a, b.o) {
				r.Violate(prop, "O4-fifo", "", "%s was queued before %s; the later one was transmitted, the earlier one never", opDesc(a), opDesc(b.o))
			}
		}
	}

	// queued inventory: at most as often as it was queued
	queued := map[[32]byte]int{}
	for _, o := range s.ops {
		if o.kind == opQueueInv {
			queued[o.token]++
		}
	}
	for _, o := range s.ops {
		if o.kind == opQueueInv {
			if n := s.invOnWire[o.token]; n > queued[o.token] {
				r.Violate(prop, "O4-inventory-once", "", "inventory %x queued %d time(s) was announced %d times", o.token[:6], queued[o.token], n)
			}
		}
	}

	for _, o := range s.ops {
		if o.kind == opQueueMsg && o.assoc && s.established() {
			if _, ok := o.expectedPayload(pv); !ok && len(s.wirePos(o)) == 0 {
				r.Fault("unencodable_msg")
			}
		}
	}

	// evidence
	nQueued := 0
	for _, o := range s.ops {
		if o.kind == opQueueMsg {
			nQueued++
		}
	}
	if s.discStep >= 0 {
		for _, o := range s.ops {
			if o.kind != opDisconnect && o.step == s.discStep {
				r.Probe("queue during disconnect")
				break
			}
		}
	}
	if s.established() && nQueued > 0 && s.discStep >= 0 {
		r.NonTrivial()
	}
	if s.refusalJudged {
		r.NonTrivial()
	}
	r.Sig("cause=" + s.discCause)
	r.Sig("est=" + btoa(s.established()))
	r.Sig("phase=" + model.phase.String())
	for _, k := range sortedFaults(r.Faults) {
		if r.Faults[k].Fired > 0 {
			r.Sig("f=" + k)
		}
	}
	s.y.mu.Lock()
	for _, site := range yieldSites {
		if s.y.hits[site] > 0 {
			r.Count("yield_hits:"+site, s.y.hits[site])
		}
	}
	s.y.mu.Unlock()
	r.Count("ops", len(s.ops))
	r.Count("steps", s.step)
	r.Count("wire_msgs", len(s.out))
	if s.hsJudged {
		r.Count("handshake_liveness_judged", 1)
	}
	r.Count("pong_liveness_judged", s.pongJudged)
	r.Event("final", "cause=%s est=%v model=%s ops=%d", s.discCause, s.established(), model.phase, len(s.ops))
}

func sortedFaults[V any](m map[string]V) []string {
	ks := make([]string, 0, len(m))
	for k := range m {
		ks = append(ks, k)
	}
	sort.Strings(ks)
	return ks
}

package bip324ref

import (
	"testing"
	"time"
)

func TestSelfCheck(t *testing.T) {
	t0 := time.Now()
	if err := SelfCheck(1); err != nil {
		t.Fatal(err)
	}
	t.Logf("small vectors: %v", time.Since(t0))
	t0 = time.Now()
	if err := SelfCheck(0); err != nil {
		t.Fatal(err)
	}
	t.Logf("all vectors: %v", time.Since(t0))
}

// Package bip324ref is an independent reference implementation of the BIP324
// v2 encrypted transport, written from the BIP text (key schedule, FSChaCha20,
// FSChaCha20Poly1305, packet framing, garbage / garbage-terminator handling,
// handshake order).  It shares no code with /repo/v2transport.
//
// Two things are NOT rebuilt here and are taken from /repo/btcec:
// secp256k1 scalar multiplication and the XSwiftEC map (through
// ellswift.EllswiftECDHXOnly / XSwiftECInv).  They are anchored by replaying
// the published BIP324 packet-encoding vectors (vectors.go) through this
// package in SelfCheck.
package bip324ref

import (
	"bytes"
	"crypto/hkdf"
	"crypto/sha256"
	"encoding/binary"
	"errors"
	"fmt"
	"io"

	"github.com/btcsuite/btcd/btcec/v2"
	"github.com/btcsuite/btcd/btcec/v2/ellswift"
	"golang.org/x/crypto/chacha20"
	"golang.org/x/crypto/chacha20poly1305"
)

const (
	// RekeyInterval is REKEY_INTERVAL of BIP324.
	RekeyInterval = 224
	// MaxGarbageLen is the largest garbage a peer may send.
	MaxGarbageLen = 4095
	// GarbageTermLen is the length of a garbage terminator.
	GarbageTermLen = 16
	// LengthFieldLen is the length of the encrypted length field.
	LengthFieldLen = 3
	// HeaderLen is the length of the packet header.
	HeaderLen = 1
	// TagLen is the Poly1305 tag length.
	TagLen = 16
	// IgnoreBit is the ignore flag inside the header byte.
	IgnoreBit = 0x80
	// MaxContentsLen is the largest contents length (2^24-1).
	MaxContentsLen = 1<<24 - 1
)

var (
	// ErrAuth is an AEAD authentication failure.
	ErrAuth = errors.New("bip324ref: packet authentication failed")
	// ErrNoTerminator means no garbage terminator within 4095+16 bytes.
	ErrNoTerminator = errors.New("bip324ref: garbage terminator not received")
	// ErrV1 means the peer sent a v1 version message prefix.
	ErrV1 = errors.New("bip324ref: peer speaks v1")
)

// ---------------------------------------------------------------------------
// FSChaCha20: the length cipher.

// FSChaCha20 is the forward-secure stream cipher of BIP324: one continuous
// ChaCha20 keystream per epoch (nonce = 0x00000000 || LE64(epoch)), rekeyed
// from the next 32 keystream bytes after every RekeyInterval chunks.
type FSChaCha20 struct {
	key      [32]byte
	chunkCtr uint64
	blockCtr uint32
	ks       []byte // unused keystream bytes of the current epoch
}

// NewFSChaCha20 returns the cipher for an initial key.
func NewFSChaCha20(key []byte) *FSChaCha20 {
	f := &FSChaCha20{}
	if len(key) != 32 {
		panic("bip324ref: bad key length")
	}
	copy(f.key[:], key)
	return f
}

// block returns the 64-byte ChaCha20 block (key, nonce, counter).
func chachaBlock(key []byte, nonce []byte, counter uint32) []byte {
	c, err := chacha20.NewUnauthenticatedCipher(key, nonce)
	if err != nil {
		panic(err)
	}
	c.SetCounter(counter)
	out := make([]byte, 64)
	c.XORKeyStream(out, out)
	return out
}

func (f *FSChaCha20) keystream(n int) []byte {
	for len(f.ks) < n {
		var nonce [12]byte
		binary.LittleEndian.PutUint64(nonce[4:], f.chunkCtr/RekeyInterval)
		f.ks = append(f.ks, chachaBlock(f.key[:], nonce[:], f.blockCtr)...)
		f.blockCtr++
	}
	out := append([]byte(nil), f.ks[:n]...)
	f.ks = f.ks[n:]
	return out
}

// Crypt encrypts or decrypts one chunk.
func (f *FSChaCha20) Crypt(chunk []byte) []byte {
	ks := f.keystream(len(chunk))
	out := make([]byte, len(chunk))
	for i := range chunk {
		out[i] = chunk[i] ^ ks[i]
	}
	if (f.chunkCtr+1)%RekeyInterval == 0 {
		nk := f.keystream(32)
		copy(f.key[:], nk)
		f.blockCtr = 0
		f.ks = nil
	}
	f.chunkCtr++
	return out
}

// Epoch returns the number of rekeyings performed so far.
func (f *FSChaCha20) Epoch() uint64 { return f.chunkCtr / RekeyInterval }

// ---------------------------------------------------------------------------
// FSChaCha20Poly1305: the packet AEAD.

// FSChaCha20Poly1305 is the rekeying AEAD of BIP324.
type FSChaCha20Poly1305 struct {
	key       [32]byte
	packetCtr uint64
}

// NewFSChaCha20Poly1305 returns the AEAD for an initial key.
func NewFSChaCha20Poly1305(key []byte) *FSChaCha20Poly1305 {
	f := &FSChaCha20Poly1305{}
	if len(key) != 32 {
		panic("bip324ref: bad key length")
	}
	copy(f.key[:], key)
	return f
}

func (f *FSChaCha20Poly1305) crypt(aad, text []byte, decrypt bool) ([]byte, bool) {
	var nonce [12]byte
	binary.LittleEndian.PutUint32(nonce[0:4], uint32(f.packetCtr%RekeyInterval))
	binary.LittleEndian.PutUint64(nonce[4:12], f.packetCtr/RekeyInterval)
	aead, err := chacha20poly1305.New(f.key[:])
	if err != nil {
		panic(err)
	}
	var ret []byte
	ok := true
	if decrypt {
		ret, err = aead.Open(nil, nonce[:], text, aad)
		if err != nil {
			ret, ok = nil, false
		}
	} else {
		ret = aead.Seal(nil, nonce[:], text, aad)
	}
	if (f.packetCtr+1)%RekeyInterval == 0 {
		var rk [12]byte
		rk[0], rk[1], rk[2], rk[3] = 0xff, 0xff, 0xff, 0xff
		copy(rk[4:], nonce[4:])
		nk := aead.Seal(nil, rk[:], make([]byte, 32), nil)
		copy(f.key[:], nk[:32])
	}
	f.packetCtr++
	return ret, ok
}

// Encrypt returns ciphertext||tag.
func (f *FSChaCha20Poly1305) Encrypt(aad, plaintext []byte) []byte {
	r, _ := f.crypt(aad, plaintext, false)
	return r
}

// Decrypt returns the plaintext, or ok=false on authentication failure.
func (f *FSChaCha20Poly1305) Decrypt(aad, ciphertext []byte) ([]byte, bool) {
	return f.crypt(aad, ciphertext, true)
}

// Epoch returns the number of rekeyings performed so far.
func (f *FSChaCha20Poly1305) Epoch() uint64 { return f.packetCtr / RekeyInterval }

// Count returns the number of messages processed.
func (f *FSChaCha20Poly1305) Count() uint64 { return f.packetCtr }

// ---------------------------------------------------------------------------
// Key schedule.

// Keys is everything derived from the ECDH secret.
type Keys struct {
	InitiatorL, InitiatorP [32]byte
	ResponderL, ResponderP [32]byte
	InitiatorGarbageTerm   [16]byte
	ResponderGarbageTerm   [16]byte
	SessionID              [32]byte
}

// DeriveKeys runs HKDF-SHA256 with salt "bitcoin_v2_shared_secret"||magic.
func DeriveKeys(secret []byte, magic [4]byte) Keys {
	salt := append([]byte("bitcoin_v2_shared_secret"), magic[:]...)
	prk, err := hkdf.Extract(sha256.New, secret, salt)
	if err != nil {
		panic(err)
	}
	exp := func(label string) []byte {
		b, err := hkdf.Expand(sha256.New, prk, label, 32)
		if err != nil {
			panic(err)
		}
		return b
	}
	var k Keys
	copy(k.InitiatorL[:], exp("initiator_L"))
	copy(k.InitiatorP[:], exp("initiator_P"))
	copy(k.ResponderL[:], exp("responder_L"))
	copy(k.ResponderP[:], exp("responder_P"))
	gt := exp("garbage_terminators")
	copy(k.InitiatorGarbageTerm[:], gt[:16])
	copy(k.ResponderGarbageTerm[:], gt[16:])
	copy(k.SessionID[:], exp("session_id"))
	return k
}

// taggedHash is BIP340-style SHA256(SHA256(tag)||SHA256(tag)||msg).
func taggedHash(tag string, msg []byte) [32]byte {
	th := sha256.Sum256([]byte(tag))
	h := sha256.New()
	h.Write(th[:])
	h.Write(th[:])
	h.Write(msg)
	var out [32]byte
	copy(out[:], h.Sum(nil))
	return out
}

// SharedSecret is v2_ecdh of BIP324: the x-only ECDH point (computed by the
// repository's secp256k1 code) hashed together with both encodings, the
// initiator's first.
func SharedSecret(priv *btcec.PrivateKey, ellswiftOurs, ellswiftTheirs [64]byte, initiating bool) ([32]byte, error) {
	x, err := ellswift.EllswiftECDHXOnly(ellswiftTheirs, priv)
	if err != nil {
		return [32]byte{}, err
	}
	msg := make([]byte, 0, 160)
	if initiating {
		msg = append(msg, ellswiftOurs[:]...)
		msg = append(msg, ellswiftTheirs[:]...)
	} else {
		msg = append(msg, ellswiftTheirs[:]...)
		msg = append(msg, ellswiftOurs[:]...)
	}
	msg = append(msg, x[:]...)
	return taggedHash("bip324_ellswift_xonly_ecdh", msg), nil
}

// ---------------------------------------------------------------------------
// Packets.

// Sender is one sending direction.
type Sender struct {
	L *FSChaCha20
	P *FSChaCha20Poly1305
}

// Receiver is one receiving direction.
type Receiver struct {
	L *FSChaCha20
	P *FSChaCha20Poly1305
}

// EncPacket is v2_enc_packet.
func (s *Sender) EncPacket(contents, aad []byte, ignore bool) []byte {
	return s.EncPacketReserved(contents, aad, ignore, 0)
}

// EncPacketReserved additionally sets reserved header bits (bits 0..6), which
// a receiver must ignore: only bit 7 makes a packet a decoy.
func (s *Sender) EncPacketReserved(contents, aad []byte, ignore bool, reserved byte) []byte {
	if len(contents) > MaxContentsLen {
		panic("bip324ref: contents too long")
	}
	pt := make([]byte, 0, len(contents)+1)
	if ignore {
		pt = append(pt, IgnoreBit|reserved&0x7f)
	} else {
		pt = append(pt, reserved&0x7f)
	}
	pt = append(pt, contents...)
	body := s.P.Encrypt(aad, pt)
	n := len(contents)
	lenb := []byte{byte(n), byte(n >> 8), byte(n >> 16)}
	out := s.L.Crypt(lenb)
	return append(out, body...)
}

// ReadPacket reads exactly one packet (decoys included) from r.
func (rc *Receiver) ReadPacket(r io.Reader, aad []byte) (contents []byte, ignore bool, err error) {
	var lb [LengthFieldLen]byte
	if _, err = io.ReadFull(r, lb[:]); err != nil {
		return nil, false, err
	}
	pl := rc.L.Crypt(lb[:])
	n := int(pl[0]) | int(pl[1])<<8 | int(pl[2])<<16
	body := make([]byte, HeaderLen+n+TagLen)
	if _, err = io.ReadFull(r, body); err != nil {
		return nil, false, err
	}
	pt, ok := rc.P.Decrypt(aad, body)
	if !ok {
		return nil, false, ErrAuth
	}
	return pt[HeaderLen:], pt[0]&IgnoreBit != 0, nil
}

// Session is both directions of one endpoint.
type Session struct {
	Keys            Keys
	Initiating      bool
	Send            *Sender
	Recv            *Receiver
	SendGarbageTerm [16]byte
	RecvGarbageTerm [16]byte
}

// NewSession instantiates the ciphers of one side.
func NewSession(k Keys, initiating bool) *Session {
	s := &Session{Keys: k, Initiating: initiating}
	if initiating {
		s.Send = &Sender{NewFSChaCha20(k.InitiatorL[:]), NewFSChaCha20Poly1305(k.InitiatorP[:])}
		s.Recv = &Receiver{NewFSChaCha20(k.ResponderL[:]), NewFSChaCha20Poly1305(k.ResponderP[:])}
		s.SendGarbageTerm, s.RecvGarbageTerm = k.InitiatorGarbageTerm, k.ResponderGarbageTerm
	} else {
		s.Send = &Sender{NewFSChaCha20(k.ResponderL[:]), NewFSChaCha20Poly1305(k.ResponderP[:])}
		s.Recv = &Receiver{NewFSChaCha20(k.InitiatorL[:]), NewFSChaCha20Poly1305(k.InitiatorP[:])}
		s.SendGarbageTerm, s.RecvGarbageTerm = k.ResponderGarbageTerm, k.InitiatorGarbageTerm
	}
	return s
}

// ---------------------------------------------------------------------------
// Endpoint: the handshake of one side, in the steps the BIP describes.  The
// caller decides the order in which the independent steps run.

// Endpoint is one reference peer.
type Endpoint struct {
	Initiating     bool
	Magic          [4]byte
	Priv           *btcec.PrivateKey
	EllswiftOurs   [64]byte
	EllswiftTheirs [64]byte
	SentGarbage    []byte
	RecvGarbage    []byte
	S              *Session
	// DecoysSeenInHandshake counts ignored packets before the version packet.
	DecoysSeenInHandshake int
	VersionContents       []byte
	prefix                []byte
}

// V1Prefix is magic || "version\0\0\0\0\0".
func V1Prefix(magic [4]byte) []byte {
	return append(append([]byte(nil), magic[:]...), []byte("version\x00\x00\x00\x00\x00")...)
}

// SendKey writes our encoding followed by garbage.
func (e *Endpoint) SendKey(w io.Writer, garbage []byte) error {
	if len(garbage) > MaxGarbageLen {
		panic("bip324ref: garbage too long")
	}
	e.SentGarbage = append([]byte(nil), garbage...)
	_, err := w.Write(append(append([]byte(nil), e.EllswiftOurs[:]...), garbage...))
	return err
}

// ReadUntilV1Mismatch (responder) reads bytes one at a time until one differs
// from the v1 prefix; all 16 matching means the peer speaks v1.
func (e *Endpoint) ReadUntilV1Mismatch(r io.Reader) error {
	v1 := V1Prefix(e.Magic)
	for len(e.prefix) < len(v1) {
		var b [1]byte
		if _, err := io.ReadFull(r, b[:]); err != nil {
			return err
		}
		e.prefix = append(e.prefix, b[0])
		if b[0] != v1[len(e.prefix)-1] {
			return nil
		}
	}
	return ErrV1
}

// ReceiveKey reads the rest of the peer's 64-byte encoding and derives the
// session.
func (e *Endpoint) ReceiveKey(r io.Reader) error {
	buf := make([]byte, 64-len(e.prefix))
	if _, err := io.ReadFull(r, buf); err != nil {
		return err
	}
	copy(e.EllswiftTheirs[:], append(append([]byte(nil), e.prefix...), buf...))
	sec, err := SharedSecret(e.Priv, e.EllswiftOurs, e.EllswiftTheirs, e.Initiating)
	if err != nil {
		return err
	}
	e.S = NewSession(DeriveKeys(sec[:], e.Magic), e.Initiating)
	return nil
}

// ReceiveGarbageAndVersion scans for the garbage terminator (at most
// 4095+16 bytes) and then reads packets, the first one authenticated with the
// received garbage, until the first non-decoy packet (the version packet).
func (e *Endpoint) ReceiveGarbageAndVersion(r io.Reader) error {
	buf := make([]byte, 0, 256)
	one := make([]byte, 1)
	for {
		if len(buf) >= GarbageTermLen && bytes.Equal(buf[len(buf)-GarbageTermLen:], e.S.RecvGarbageTerm[:]) {
			break
		}
		if len(buf) == MaxGarbageLen+GarbageTermLen {
			return ErrNoTerminator
		}
		if _, err := io.ReadFull(r, one); err != nil {
			return err
		}
		buf = append(buf, one[0])
	}
	e.RecvGarbage = append([]byte(nil), buf[:len(buf)-GarbageTermLen]...)
	aad := e.RecvGarbage
	for {
		c, ign, err := e.S.Recv.ReadPacket(r, aad)
		if err != nil {
			return err
		}
		aad = nil
		if !ign {
			e.VersionContents = c
			return nil
		}
		e.DecoysSeenInHandshake++
	}
}

// ---------------------------------------------------------------------------
// Self-check against the published vectors.

func unhex(s string) []byte {
	if len(s)%2 == 1 {
		s = "0" + s
	}
	b := make([]byte, len(s)/2)
	for i := 0; i < len(b); i++ {
		var v byte
		for j := 0; j < 2; j++ {
			c := s[2*i+j]
			switch {
			case c >= '0' && c <= '9':
				v = v<<4 | (c - '0')
			case c >= 'a' && c <= 'f':
				v = v<<4 | (c - 'a' + 10)
			case c >= 'A' && c <= 'F':
				v = v<<4 | (c - 'A' + 10)
			default:
				panic("bad hex")
			}
		}
		b[i] = v
	}
	return b
}

// DecodeEllswift maps a 64-byte encoding to the x coordinate using the
// repository's XSwiftEC (inputs reduced mod p first).
func DecodeEllswift(enc [64]byte) (*btcec.FieldVal, error) {
	var u, t btcec.FieldVal
	if u.SetByteSlice(enc[:32]) {
		u.Normalize()
	}
	if t.SetByteSlice(enc[32:]) {
		t.Normalize()
	}
	return ellswift.XSwiftEC(&u, &t)
}

// PubX returns the x coordinate of priv*G.
func PubX(priv *btcec.PrivateKey) *btcec.FieldVal {
	var p btcec.JacobianPoint
	btcec.ScalarBaseMultNonConst(&priv.Key, &p)
	p.ToAffine()
	x := p.X
	x.Normalize()
	return &x
}

// SelfCheck replays the published vectors through this package.  maxMul
// bounds in_multiply (0 = all vectors).
// RepoMathError is returned by SelfCheck when a published BIP324 vector
// disagrees with a value computed by the REPOSITORY's own secp256k1 /
// ElligatorSwift code (point multiplication, XSwiftEC decoding, x-only ECDH),
// as opposed to a value computed by this reference implementation.
type RepoMathError struct{ Msg string }

func (e *RepoMathError) Error() string { return e.Msg }

func SelfCheck(maxMul int) error {
	mainnet := [4]byte{0xf9, 0xbe, 0xb4, 0xd9}
	n := 0
	for vi, v := range Vectors {
		if maxMul > 0 && v.InMultiply > maxMul {
			continue
		}
		n++
		fail := func(what string, got, want []byte) error {
			return fmt.Errorf("bip324ref self-check: vector %d (in_idx=%d): %s mismatch: got %x want %x", vi, v.InIdx, what, trunc(got), trunc(want))
		}
		repoFail := func(what string, got, want []byte) error {
			return &RepoMathError{fail(what, got, want).Error()}
		}
		priv, _ := btcec.PrivKeyFromBytes(unhex(v.InPrivOurs))
		var ours, theirs [64]byte
		copy(ours[:], unhex(v.InEllswiftOurs))
		copy(theirs[:], unhex(v.InEllswiftTheirs))

		if x := PubX(priv).Bytes(); !bytes.Equal(x[:], unhex(v.MidXOurs)) {
			return repoFail("mid_x_ours (priv*G)", x[:], unhex(v.MidXOurs))
		}
		xo, err := DecodeEllswift(ours)
		if err != nil {
			return &RepoMathError{fmt.Sprintf("bip324ref self-check: vector %d (in_idx=%d): decode ours: %v", vi, v.InIdx, err)}
		}
		if b := xo.Bytes(); !bytes.Equal(b[:], unhex(v.MidXOurs)) {
			return repoFail("mid_x_ours (decode)", b[:], unhex(v.MidXOurs))
		}
		xt, err := DecodeEllswift(theirs)
		if err != nil {
			return &RepoMathError{fmt.Sprintf("bip324ref self-check: vector %d (in_idx=%d): decode theirs: %v", vi, v.InIdx, err)}
		}
		if b := xt.Bytes(); !bytes.Equal(b[:], unhex(v.MidXTheirs)) {
			return repoFail("mid_x_theirs", b[:], unhex(v.MidXTheirs))
		}
		xs, err := ellswift.EllswiftECDHXOnly(theirs, priv)
		if err != nil {
			return &RepoMathError{fmt.Sprintf("bip324ref self-check: vector %d (in_idx=%d): x-only ECDH of the published encoding failed: %v", vi, v.InIdx, err)}
		}
		if !bytes.Equal(xs[:], unhex(v.MidXShared)) {
			return repoFail("mid_x_shared", xs[:], unhex(v.MidXShared))
		}
		sec, err := SharedSecret(priv, ours, theirs, v.InInitiating)
		if err != nil {
			return err
		}
		if !bytes.Equal(sec[:], unhex(v.MidSharedSecret)) {
			return fail("mid_shared_secret", sec[:], unhex(v.MidSharedSecret))
		}
		k := DeriveKeys(sec[:], mainnet)
		for _, c := range []struct {
			n    string
			g, w []byte
		}{
			{"mid_initiator_l", k.InitiatorL[:], unhex(v.MidInitiatorL)},
			{"mid_initiator_p", k.InitiatorP[:], unhex(v.MidInitiatorP)},
			{"mid_responder_l", k.ResponderL[:], unhex(v.MidResponderL)},
			{"mid_responder_p", k.ResponderP[:], unhex(v.MidResponderP)},
			{"out_session_id", k.SessionID[:], unhex(v.OutSessionID)},
		} {
			if !bytes.Equal(c.g, c.w) {
				return fail(c.n, c.g, c.w)
			}
		}
		s := NewSession(k, v.InInitiating)
		if !bytes.Equal(s.SendGarbageTerm[:], unhex(v.MidSendGarbageTerm)) {
			return fail("mid_send_garbage_terminator", s.SendGarbageTerm[:], unhex(v.MidSendGarbageTerm))
		}
		if !bytes.Equal(s.RecvGarbageTerm[:], unhex(v.MidRecvGarbageTerm)) {
			return fail("mid_recv_garbage_terminator", s.RecvGarbageTerm[:], unhex(v.MidRecvGarbageTerm))
		}
		// A peer with the opposite role (same keys) decrypts what we send.
		peer := NewSession(k, !v.InInitiating)
		var stream bytes.Buffer
		for i := 0; i < v.InIdx; i++ {
			stream.Write(s.Send.EncPacket(nil, nil, false))
		}
		contents := bytes.Repeat(unhex(v.InContents), v.InMultiply)
		aad := unhex(v.InAad)
		ct := s.Send.EncPacket(contents, aad, v.InIgnore)
		if v.OutCiphertext != "" && !bytes.Equal(ct, unhex(v.OutCiphertext)) {
			return fail("out_ciphertext", ct, unhex(v.OutCiphertext))
		}
		if v.OutCiphertextEndsWith != "" && !bytes.HasSuffix(ct, unhex(v.OutCiphertextEndsWith)) {
			return fail("out_ciphertext_endswith", ct[max(0, len(ct)-32):], unhex(v.OutCiphertextEndsWith))
		}
		stream.Write(ct)
		for i := 0; i < v.InIdx; i++ {
			c, ign, err := peer.Recv.ReadPacket(&stream, nil)
			if err != nil || ign || len(c) != 0 {
				return fmt.Errorf("bip324ref self-check: vector %d: dummy packet %d: err=%v ign=%v len=%d", vi, i, err, ign, len(c))
			}
		}
		c, ign, err := peer.Recv.ReadPacket(&stream, aad)
		if err != nil || ign != v.InIgnore || !bytes.Equal(c, contents) {
			return fmt.Errorf("bip324ref self-check: vector %d: round trip failed: err=%v ign=%v", vi, err, ign)
		}
		// and a modified tag must not authenticate
		bad := NewSession(k, !v.InInitiating)
		s2 := NewSession(k, v.InInitiating)
		ct2 := s2.Send.EncPacket([]byte{1, 2, 3}, nil, false)
		ct2[len(ct2)-1] ^= 1
		if _, _, err := bad.Recv.ReadPacket(bytes.NewReader(ct2), nil); err != ErrAuth {
			return fmt.Errorf("bip324ref self-check: vector %d: tampered tag accepted (err=%v)", vi, err)
		}
	}
	if n == 0 {
		return errors.New("bip324ref self-check: no vectors replayed")
	}
	return nil
}

func trunc(b []byte) []byte {
	if len(b) > 48 {
		return b[:48]
	}
	return b
}

// Package simconn is a harness-owned net.Conn for deterministic simulation.
//
// One Conn is the local end handed to the system under test (a peer.Peer).
// The remote end is not a net.Conn: the harness drives it directly with
// Deliver / RemoteClose / Consume and reads what the local side wrote with
// Written.  All blocking happens on channels created by the goroutine that
// calls the constructor or the harness-side methods, so when the Conn is
// created and driven inside a testing/synctest bubble every block is durable
// (synctest.Wait sees quiescence) and nothing depends on real time.
//
// Semantics
//
//   - duplex and buffered: Deliver never blocks; Write blocks only when a
//     write capacity is configured and the remote has not consumed enough
//     ("stalled remote").
//   - Read returns whatever is available (at most MaxRead bytes per call when
//     set), blocks while nothing is available, returns the remote-close error
//     (io.EOF by default) once the delivered bytes are drained after
//     RemoteClose, and returns a net.OpError wrapping net.ErrClosed after the
//     local Close.
//   - Close wakes blocked Read and Write calls; Write after Close fails.
//   - LocalAddr / RemoteAddr are *net.TCPAddr.
//   - Deadlines are accepted and ignored (the peer package does not use them).
package simconn

import (
	"io"
	"net"
	"sync"
	"time"
)

// Conn implements net.Conn.
type Conn struct {
	local, remote *net.TCPAddr

	mu sync.Mutex // short critical sections only; never held while blocking

	// remote -> local
	rbuf    []byte
	rclosed bool
	rerr    error
	maxRead int
	rwait   chan struct{} // closed (and replaced) on every change readers care about

	// local -> remote
	wlog     []byte // every byte accepted from the local side, in order
	consumed int    // how much of wlog the remote has "read"
	wcap     int    // 0: unbounded; else max len(wlog)-consumed
	werr     error  // injected write error
	wwait    chan struct{}

	// remote-side blocking reader of wlog (RemoteRead) and one-shot torn write
	lwait   chan struct{}
	tearAt  int // > 0: the Write that would carry wlog past this offset stops there ...
	tearErr error
	tornAt  int // offset at which a write was torn (-1: none yet)

	closed   bool
	nReads   int
	nWrites  int
	holdW   int
	holdCh  chan struct{}
	blockedW int // writers currently blocked on capacity
	blockedR int
}

// New creates a connection.  Call it inside the bubble.
func New(local, remote *net.TCPAddr, wcap int) *Conn {
	return &Conn{
		local: local, remote: remote, wcap: wcap,
		rwait: make(chan struct{}), wwait: make(chan struct{}), lwait: make(chan struct{}),
		tornAt: -1,
	}
}

func (c *Conn) wakeRemoteLocked() {
	close(c.lwait)
	c.lwait = make(chan struct{})
}

// TearWriteAt arms a one-shot torn write: the Write call that would carry the
// number of bytes ever written past off accepts bytes up to off only and
// returns (accepted, err).  Later writes are accepted again - the connection
// is alive, the stream is not continuable.
func (c *Conn) TearWriteAt(off int, err error) {
	c.mu.Lock()
	c.tearAt, c.tearErr = off, err
	c.mu.Unlock()
}

// TornAt returns the offset at which a write was torn, or -1.
func (c *Conn) TornAt() int {
	c.mu.Lock()
	defer c.mu.Unlock()
	return c.tornAt
}

// RemoteRead is the remote end's blocking read of what the local side wrote:
// it returns available unconsumed bytes (consuming them), blocks while there
// are none, and returns io.EOF once the local side has closed.
func (c *Conn) RemoteRead(p []byte) (int, error) {
	if len(p) == 0 {
		return 0, nil
	}
	for {
		c.mu.Lock()
		if avail := len(c.wlog) - c.consumed; avail > 0 {
			n := len(p)
			if n > avail {
				n = avail
			}
			copy(p, c.wlog[c.consumed:c.consumed+n])
			c.consumed += n
			c.wakeWritersLocked()
			c.mu.Unlock()
			return n, nil
		}
		if c.closed {
			c.mu.Unlock()
			return 0, io.EOF
		}
		ch := c.lwait
		c.mu.Unlock()
		<-ch
	}
}

func opErr(op string, err error, c *Conn) error {
	return &net.OpError{Op: op, Net: "tcp", Source: c.local, Addr: c.remote, Err: err}
}

func (c *Conn) wakeReadersLocked() {
	close(c.rwait)
	c.rwait = make(chan struct{})
}

func (c *Conn) wakeWritersLocked() {
	close(c.wwait)
	c.wwait = make(chan struct{})
}

// Read implements net.Conn.
func (c *Conn) Read(p []byte) (int, error) {
	if len(p) == 0 {
		return 0, nil
	}
	for {
		c.mu.Lock()
		if c.closed {
			c.mu.Unlock()
			return 0, opErr("read", net.ErrClosed, c)
		}
		if len(c.rbuf) > 0 {
			n := len(p)
			if n > len(c.rbuf) {
				n = len(c.rbuf)
			}
			if c.maxRead > 0 && n > c.maxRead {
				n = c.maxRead
			}
			copy(p, c.rbuf[:n])
			c.rbuf = c.rbuf[n:]
			c.nReads++
			c.mu.Unlock()
			return n, nil
		}
		if c.rclosed {
			err := c.rerr
			c.mu.Unlock()
			if err == nil {
				err = io.EOF
			}
			return 0, err
		}
		ch := c.rwait
		c.blockedR++
		c.mu.Unlock()
		<-ch
		c.mu.Lock()
		c.blockedR--
		c.mu.Unlock()
	}
}

// Write implements net.Conn.  Bytes are accepted in order as capacity allows;
// the call returns when all of p was accepted or the connection failed.
// HoldWrites makes the n-th Write call from now (and later ones) block AFTER
// its bytes have become visible to the remote side, until ReleaseWrites is
// called: a writer that has not returned yet although the remote already
// reacts to what it wrote.
func (c *Conn) HoldWrites(n int) {
	c.mu.Lock()
	c.holdW = n
	if c.holdCh == nil {
		c.holdCh = make(chan struct{})
	}
	c.mu.Unlock()
}

// ReleaseWrites lets held Write calls return.
func (c *Conn) ReleaseWrites() {
	c.mu.Lock()
	if c.holdCh != nil {
		close(c.holdCh)
		c.holdCh = nil
	}
	c.holdW = 0
	c.mu.Unlock()
}

func (c *Conn) Write(p []byte) (int, error) {
	done := 0
	for {
		c.mu.Lock()
		if c.closed {
			c.mu.Unlock()
			return done, opErr("write", net.ErrClosed, c)
		}
		if c.werr != nil {
			err := c.werr
			c.mu.Unlock()
			return done, err
		}
		room := len(p) - done
		if c.wcap > 0 {
			free := c.wcap - (len(c.wlog) - c.consumed)
			if free < room {
				room = free
			}
		}
		torn := false
		if c.tearAt > 0 && len(c.wlog)+room > c.tearAt {
			room = c.tearAt - len(c.wlog)
			if room < 0 {
				room = 0
			}
			torn = true
		}
		if room > 0 {
			c.wlog = append(c.wlog, p[done:done+room]...)
			done += room
			c.wakeRemoteLocked()
		}
		if torn {
			err := c.tearErr
			c.tornAt = len(c.wlog)
			c.tearAt, c.tearErr = 0, nil
			c.mu.Unlock()
			return done, err
		}
		if done == len(p) {
			c.nWrites++
			if c.holdW > 0 {
				c.holdW--
			}
			if c.holdW == 0 && c.holdCh != nil {
				// the bytes are on the wire (visible to the remote) but the
				// call has not returned to the writer yet
				ch := c.holdCh
				c.mu.Unlock()
				<-ch
				return done, nil
			}
			c.mu.Unlock()
			return done, nil
		}
		ch := c.wwait
		c.blockedW++
		c.mu.Unlock()
		<-ch
		c.mu.Lock()
		c.blockedW--
		c.mu.Unlock()
	}
}

// Close implements net.Conn (local side).
func (c *Conn) Close() error {
	c.mu.Lock()
	if c.closed {
		c.mu.Unlock()
		return opErr("close", net.ErrClosed, c)
	}
	c.closed = true
	c.wakeReadersLocked()
	c.wakeWritersLocked()
	c.wakeRemoteLocked()
	c.mu.Unlock()
	return nil
}

// LocalAddr implements net.Conn.
func (c *Conn) LocalAddr() net.Addr { return c.local }

// RemoteAddr implements net.Conn.
func (c *Conn) RemoteAddr() net.Addr { return c.remote }

// SetDeadline implements net.Conn (ignored).
func (c *Conn) SetDeadline(time.Time) error { return nil }

// SetReadDeadline implements net.Conn (ignored).
func (c *Conn) SetReadDeadline(time.Time) error { return nil }

// SetWriteDeadline implements net.Conn (ignored).
func (c *Conn) SetWriteDeadline(time.Time) error { return nil }

// ---- harness (remote) side ----

// Deliver makes b available to the local reader.  Never blocks.
func (c *Conn) Deliver(b []byte) {
	if len(b) == 0 {
		return
	}
	c.mu.Lock()
	if !c.rclosed {
		c.rbuf = append(c.rbuf, b...)
		c.wakeReadersLocked()
	}
	c.mu.Unlock()
}

// SetMaxRead bounds the number of bytes a single Read returns (0: unbounded).
func (c *Conn) SetMaxRead(n int) {
	c.mu.Lock()
	c.maxRead = n
	c.mu.Unlock()
}

// RemoteClose ends the remote->local direction: once the delivered bytes are
// drained Read returns err (io.EOF when nil).  If writeErr is non-nil, local
// writes fail with it from now on (connection reset / broken pipe).
func (c *Conn) RemoteClose(err, writeErr error) {
	c.mu.Lock()
	c.rclosed = true
	c.rerr = err
	if writeErr != nil {
		c.werr = writeErr
		c.wakeWritersLocked()
	}
	c.wakeReadersLocked()
	c.mu.Unlock()
}

// SetCap changes the write capacity (0: unbounded).
func (c *Conn) SetCap(n int) {
	c.mu.Lock()
	c.wcap = n
	c.wakeWritersLocked()
	c.mu.Unlock()
}

// Consume lets the remote read up to n unread bytes (n<0: everything).  It
// returns the number consumed.
func (c *Conn) Consume(n int) int {
	c.mu.Lock()
	avail := len(c.wlog) - c.consumed
	if n < 0 || n > avail {
		n = avail
	}
	if n > 0 {
		c.consumed += n
		c.wakeWritersLocked()
	}
	c.mu.Unlock()
	return n
}

// Written returns a copy of every byte the local side has written so far.
func (c *Conn) Written() []byte {
	c.mu.Lock()
	out := append([]byte(nil), c.wlog...)
	c.mu.Unlock()
	return out
}

// WrittenLen returns the number of bytes accepted so far.
func (c *Conn) WrittenLen() int {
	c.mu.Lock()
	n := len(c.wlog)
	c.mu.Unlock()
	return n
}

// Unconsumed returns how many written bytes the remote has not consumed.
func (c *Conn) Unconsumed() int {
	c.mu.Lock()
	n := len(c.wlog) - c.consumed
	c.mu.Unlock()
	return n
}

// PendingRead returns how many delivered bytes the local side has not read.
func (c *Conn) PendingRead() int {
	c.mu.Lock()
	n := len(c.rbuf)
	c.mu.Unlock()
	return n
}

// Closed reports whether the local side called Close.
func (c *Conn) Closed() bool {
	c.mu.Lock()
	b := c.closed
	c.mu.Unlock()
	return b
}

// WriterBlocked reports whether a local Write is currently waiting for
// capacity.
func (c *Conn) WriterBlocked() bool {
	c.mu.Lock()
	b := c.blockedW > 0
	c.mu.Unlock()
	return b
}

// ReaderBlocked reports whether a local Read is currently waiting for data.
func (c *Conn) ReaderBlocked() bool {
	c.mu.Lock()
	b := c.blockedR > 0
	c.mu.Unlock()
	return b
}

//go:build verif

package simfs

import (
	"github.com/btcsuite/btcd/database/ffldb"
	"github.com/syndtr/goleveldb/leveldb/opt"
	"github.com/syndtr/goleveldb/leveldb/storage"
)

// ffldbFS adapts a simulated disk to ffldb.VerifFS.
type ffldbFS struct {
	fs    *FS
	tweak func(o *opt.Options)
}

// FFLDB returns the view of the disk that ffldb.SetVerifFS wants.  tweak (may
// be nil) can adjust the leveldb options ffldb is about to open its metadata
// store with; DeterministicLevelDB is the usual choice.
func (fs *FS) FFLDB(tweak func(o *opt.Options)) ffldb.VerifFS {
	return &ffldbFS{fs: fs, tweak: tweak}
}

// DeterministicLevelDB switches goleveldb's background table compaction off
// through its own options (ffldb's own settings are untouched), so that all
// I/O happens on the calling goroutine and the I/O sequence is reproducible.
func DeterministicLevelDB(o *opt.Options) {
	o.CompactionL0Trigger = 1 << 30
	o.WriteL0SlowdownTrigger = 1 << 30
	o.WriteL0PauseTrigger = 1 << 30
	o.DisableSeeksCompaction = true
	// goleveldb allocates one write buffer (default 4 MiB) per open and per
	// transaction; the simulated stores hold kilobytes.  ffldb itself never
	// sets this option.
	o.WriteBuffer = 64 << 10
}

func (a *ffldbFS) OpenWrite(path string) (ffldb.VerifFile, error) {
	f, err := a.fs.OpenFile(path, true, false)
	if err != nil {
		return nil, err
	}
	return f, nil
}

func (a *ffldbFS) OpenRead(path string) (ffldb.VerifFile, error) {
	f, err := a.fs.OpenFile(path, false, true)
	if err != nil {
		return nil, err
	}
	return f, nil
}

func (a *ffldbFS) Remove(path string) error { return a.fs.Remove(path) }

func (a *ffldbFS) ListFiles(dir, suffix string) ([]string, error) { return a.fs.List(dir, suffix) }

func (a *ffldbFS) Size(path string) (int64, error) { return a.fs.Size(path) }

func (a *ffldbFS) Exists(path string) bool {
	ok, err := a.fs.Exists(path)
	return ok || err != nil // like ffldb's fileExists: only a definite "not exist" is false
}

func (a *ffldbFS) MkdirAll(path string) error { return a.fs.MkdirAll(path) }

func (a *ffldbFS) LevelDBStorage(path string, o *opt.Options) (storage.Storage, error) {
	if a.tweak != nil {
		a.tweak(o)
	}
	return a.fs.LevelDB(path), nil
}

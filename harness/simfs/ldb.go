package simfs

import (
	"os"
	"sort"
	"strings"

	"github.com/syndtr/goleveldb/leveldb/storage"
)

// ldbStorage implements goleveldb's storage.Storage on a directory of the
// simulated disk, so that the real goleveldb runs on simfs.
type ldbStorage struct {
	fs  *FS
	dir string
}

// LevelDB returns a storage.Storage rooted at dir (the directory is created).
func (fs *FS) LevelDB(dir string) storage.Storage {
	dir = clean(dir)
	fs.mu.Lock()
	fs.mkdirLocked(dir)
	fs.mu.Unlock()
	return &ldbStorage{fs: fs, dir: dir}
}

type ldbLock struct {
	s *ldbStorage
}

func (l *ldbLock) Unlock() {
	fs := l.s.fs
	fs.mu.Lock()
	delete(fs.locks, l.s.dir)
	fs.mu.Unlock()
}

func (s *ldbStorage) path(fd storage.FileDesc) string { return s.dir + "/" + fd.String() }

func (s *ldbStorage) Lock() (storage.Locker, error) {
	fs := s.fs
	fs.mu.Lock()
	defer fs.mu.Unlock()
	if _, err := fs.point(OpLock, s.dir, 0, 0, true); err != nil {
		return nil, err
	}
	if _, held := fs.locks[s.dir]; held {
		return nil, storage.ErrLocked
	}
	fs.locks[s.dir] = struct{}{}
	return &ldbLock{s: s}, nil
}

func (s *ldbStorage) Log(str string) {}

func (s *ldbStorage) SetMeta(fd storage.FileDesc) error {
	if !storage.FileDescOk(fd) {
		return storage.ErrInvalidFile
	}
	fs := s.fs
	fs.mu.Lock()
	defer fs.mu.Unlock()
	if _, err := fs.point(OpSetMeta, s.dir, fd.Num, int(fd.Type), true); err != nil {
		return err
	}
	fs.meta[s.dir] = fd
	return nil
}

func (s *ldbStorage) GetMeta() (storage.FileDesc, error) {
	fs := s.fs
	fs.mu.Lock()
	defer fs.mu.Unlock()
	if _, err := fs.point(OpGetMeta, s.dir, 0, 0, true); err != nil {
		return storage.FileDesc{}, err
	}
	fd, ok := fs.meta[s.dir]
	if !ok {
		return storage.FileDesc{}, os.ErrNotExist
	}
	if _, ok := fs.files[s.path(fd)]; !ok {
		return storage.FileDesc{}, os.ErrNotExist
	}
	return fd, nil
}

func parseFD(name string) (storage.FileDesc, bool) {
	var fd storage.FileDesc
	num := func(s string) (int64, bool) {
		if s == "" {
			return 0, false
		}
		var n int64
		for _, c := range s {
			if c < '0' || c > '9' {
				return 0, false
			}
			n = n*10 + int64(c-'0')
		}
		return n, true
	}
	switch {
	case strings.HasPrefix(name, "MANIFEST-"):
		n, ok := num(name[len("MANIFEST-"):])
		if !ok {
			return fd, false
		}
		return storage.FileDesc{Type: storage.TypeManifest, Num: n}, true
	case strings.HasSuffix(name, ".log"):
		n, ok := num(name[:len(name)-4])
		return storage.FileDesc{Type: storage.TypeJournal, Num: n}, ok
	case strings.HasSuffix(name, ".ldb"):
		n, ok := num(name[:len(name)-4])
		return storage.FileDesc{Type: storage.TypeTable, Num: n}, ok
	case strings.HasSuffix(name, ".tmp"):
		n, ok := num(name[:len(name)-4])
		return storage.FileDesc{Type: storage.TypeTemp, Num: n}, ok
	}
	return fd, false
}

func (s *ldbStorage) List(ft storage.FileType) ([]storage.FileDesc, error) {
	fs := s.fs
	fs.mu.Lock()
	defer fs.mu.Unlock()
	if _, err := fs.point(OpList, s.dir, int64(ft), 0, true); err != nil {
		return nil, err
	}
	var out []storage.FileDesc
	for _, p := range fs.listLocked(s.dir, "") {
		fd, ok := parseFD(p[len(s.dir)+1:])
		if ok && fd.Type&ft != 0 {
			out = append(out, fd)
		}
	}
	sort.Slice(out, func(i, j int) bool {
		if out[i].Type != out[j].Type {
			return out[i].Type < out[j].Type
		}
		return out[i].Num < out[j].Num
	})
	return out, nil
}

func (s *ldbStorage) Open(fd storage.FileDesc) (storage.Reader, error) {
	if !storage.FileDescOk(fd) {
		return nil, storage.ErrInvalidFile
	}
	fs := s.fs
	p := s.path(fd)
	fs.mu.Lock()
	defer fs.mu.Unlock()
	if _, err := fs.point(OpOpen, p, 0, 0, true); err != nil {
		return nil, err
	}
	f, ok := fs.files[p]
	if !ok {
		return nil, os.ErrNotExist
	}
	return &File{fs: fs, f: f, path: p, readonly: true, ldb: true}, nil
}

func (s *ldbStorage) Create(fd storage.FileDesc) (storage.Writer, error) {
	if !storage.FileDescOk(fd) {
		return nil, storage.ErrInvalidFile
	}
	fs := s.fs
	p := s.path(fd)
	fs.mu.Lock()
	defer fs.mu.Unlock()
	if _, err := fs.point(OpCreate, p, 0, 0, true); err != nil {
		return nil, err
	}
	f, ok := fs.files[p]
	if !ok {
		f = &file{}
		fs.files[p] = f
	} else if len(f.live) > 0 {
		o := wop{trunc: true, off: 0}
		f.pending = append(f.pending, o)
		f.live = f.live[:0]
	}
	return &File{fs: fs, f: f, path: p, ldb: true}, nil
}

func (s *ldbStorage) Remove(fd storage.FileDesc) error {
	if !storage.FileDescOk(fd) {
		return storage.ErrInvalidFile
	}
	fs := s.fs
	p := s.path(fd)
	fs.mu.Lock()
	defer fs.mu.Unlock()
	if _, err := fs.point(OpRemove, p, 0, 0, true); err != nil {
		return err
	}
	if _, ok := fs.files[p]; !ok {
		return os.ErrNotExist
	}
	delete(fs.files, p)
	return nil
}

func (s *ldbStorage) Rename(oldfd, newfd storage.FileDesc) error {
	if !storage.FileDescOk(oldfd) || !storage.FileDescOk(newfd) {
		return storage.ErrInvalidFile
	}
	if oldfd == newfd {
		return nil
	}
	fs := s.fs
	op, np := s.path(oldfd), s.path(newfd)
	fs.mu.Lock()
	defer fs.mu.Unlock()
	if _, err := fs.point(OpRename, op, 0, 0, true); err != nil {
		return err
	}
	f, ok := fs.files[op]
	if !ok {
		return os.ErrNotExist
	}
	delete(fs.files, op)
	fs.files[np] = f
	return nil
}

func (s *ldbStorage) Close() error { return nil }

// Package simfs is the simulated disk of the storage engine: in-memory files
// that distinguish durable content (as of the last successful Sync) from the
// ordered list of writes/truncates made since, a global index over every I/O
// call, fault injection at any I/O point, and construction of the post-crash
// disk under process-crash and power-loss semantics.  It also implements
// goleveldb's storage.Storage on top of the same files (ldb.go).
//
// Directory operations (create, remove, rename, the leveldb "meta" pointer)
// are durable at once.  The package does not depend on the simulator kit: all
// decisions come from an Injector callback and a Pick function.
package simfs

import (
	"crypto/sha256"
	"encoding/binary"
	"encoding/hex"
	"errors"
	"hash"
	"io"
	"os"
	"sort"
	"strings"
	"sync"

	"github.com/syndtr/goleveldb/leveldb/storage"
)

// OpKind is the kind of an I/O call.
type OpKind uint8

// I/O call kinds.
const (
	OpOpen   OpKind = iota // open an existing file / open-or-create a block file
	OpCreate               // create-or-truncate (leveldb)
	OpRead
	OpWrite
	OpSync
	OpTruncate
	OpClose
	OpRemove
	OpRename
	OpList
	OpStat
	OpMkdir
	OpSetMeta
	OpGetMeta
	OpLock
	numOpKinds
)

var opNames = [...]string{"open", "create", "read", "write", "sync", "truncate", "close", "remove", "rename",
	"list", "stat", "mkdir", "setmeta", "getmeta", "lock"}

func (k OpKind) String() string {
	if int(k) < len(opNames) {
		return opNames[k]
	}
	return "?"
}

// IOPoint describes one I/O call.
type IOPoint struct {
	Index int    // global index of the call on this disk (0-based)
	Kind  OpKind //
	Path  string // file or directory
	Off   int64  // offset for read/write/truncate(size)
	Len   int    // length for read/write
	Ldb   bool   // call made through the leveldb storage
}

// Action is what the injector wants done at an I/O point.
type Action uint8

// Injector actions.
const (
	ActNone  Action = iota // perform the call
	ActFail                // return Err, no effect
	ActShort               // write: apply the first N bytes, return (N, Err)
	ActCrash               // freeze the disk before the call takes effect (writes: after N bytes)
)

// Decision is the injector's answer.
type Decision struct {
	Action Action
	N      int
	Err    error
}

// Injector is consulted at every I/O point (under the disk's lock: it must
// not call back into the FS).
type Injector func(p IOPoint) Decision

// Errors.
var (
	ErrFrozen   = errors.New("simfs: disk frozen (crashed)")
	ErrInjected = errors.New("simfs: injected I/O error")
	ErrClosed   = errors.New("simfs: file already closed")
	ErrReadOnly = errors.New("simfs: file opened read-only")
)

type wop struct {
	trunc bool
	off   int64 // write offset, or new size for a truncate
	data  []byte
}

type file struct {
	durable []byte
	pending []wop
	live    []byte
}

func applyOp(b []byte, o wop) []byte {
	if o.trunc {
		if int64(len(b)) > o.off {
			return b[:o.off]
		}
		for int64(len(b)) < o.off {
			b = append(b, 0)
		}
		return b
	}
	end := o.off + int64(len(o.data))
	for int64(len(b)) < end {
		b = append(b, 0)
	}
	copy(b[o.off:end], o.data)
	return b
}

// FS is one simulated disk.
type FS struct {
	mu     sync.Mutex
	files  map[string]*file
	dirs   map[string]struct{}
	meta   map[string]storage.FileDesc
	locks  map[string]struct{}
	idx    int
	frozen bool
	inject Injector
	counts [numOpKinds]int
	trace  hash.Hash
	keep   bool
	points []IOPoint
}

// New returns an empty disk.
func New() *FS {
	return &FS{files: map[string]*file{}, dirs: map[string]struct{}{}, meta: map[string]storage.FileDesc{},
		locks: map[string]struct{}{}, trace: sha256.New()}
}

// SetInjector installs (or with nil removes) the fault injector.
func (fs *FS) SetInjector(in Injector) {
	fs.mu.Lock()
	fs.inject = in
	fs.mu.Unlock()
}

// KeepTrace makes the disk remember every I/O point (Points).
func (fs *FS) KeepTrace(on bool) {
	fs.mu.Lock()
	fs.keep = on
	fs.mu.Unlock()
}

// Points returns the remembered I/O points.
func (fs *FS) Points() []IOPoint {
	fs.mu.Lock()
	defer fs.mu.Unlock()
	return append([]IOPoint(nil), fs.points...)
}

// IOCount returns the number of I/O calls made so far.
func (fs *FS) IOCount() int {
	fs.mu.Lock()
	defer fs.mu.Unlock()
	return fs.idx
}

// Count returns the number of calls of one kind.
func (fs *FS) Count(k OpKind) int {
	fs.mu.Lock()
	defer fs.mu.Unlock()
	return fs.counts[k]
}

// TraceDigest returns a digest of the sequence of I/O points so far.
func (fs *FS) TraceDigest() string {
	fs.mu.Lock()
	defer fs.mu.Unlock()
	return hex.EncodeToString(fs.trace.Sum(nil)[:8])
}

// Frozen reports whether the disk is frozen.
func (fs *FS) Frozen() bool {
	fs.mu.Lock()
	defer fs.mu.Unlock()
	return fs.frozen
}

// Freeze makes every later call fail with ErrFrozen.
func (fs *FS) Freeze() {
	fs.mu.Lock()
	fs.frozen = true
	fs.mu.Unlock()
}

// point registers an I/O call; the caller holds fs.mu.
func (fs *FS) point(k OpKind, path string, off int64, n int, ldb bool) (Decision, error) {
	if fs.frozen {
		return Decision{}, ErrFrozen
	}
	p := IOPoint{Index: fs.idx, Kind: k, Path: path, Off: off, Len: n, Ldb: ldb}
	fs.idx++
	fs.counts[k]++
	var hdr [18]byte
	hdr[0] = byte(k)
	if ldb {
		hdr[1] = 1
	}
	binary.LittleEndian.PutUint64(hdr[2:], uint64(off))
	binary.LittleEndian.PutUint64(hdr[10:], uint64(n))
	fs.trace.Write(hdr[:])
	if k != OpClose {
		// the system under test closes its cached read handles in Go map
		// order: which file a close belongs to is not part of the digest
		fs.trace.Write([]byte(path))
	}
	fs.trace.Write([]byte{0})
	if fs.keep {
		fs.points = append(fs.points, p)
	}
	if fs.inject == nil {
		return Decision{}, nil
	}
	d := fs.inject(p)
	switch d.Action {
	case ActFail:
		if d.Err == nil {
			d.Err = ErrInjected
		}
		return d, d.Err
	case ActShort:
		if d.Err == nil {
			d.Err = ErrInjected
		}
		if k != OpWrite {
			return d, d.Err
		}
		return d, nil
	case ActCrash:
		if k == OpWrite && d.N > 0 {
			d.Err = ErrFrozen
			return d, nil // caller applies N bytes then freezes
		}
		fs.frozen = true
		return d, ErrFrozen
	}
	return d, nil
}

func clean(p string) string {
	for len(p) > 1 && strings.HasSuffix(p, "/") {
		p = p[:len(p)-1]
	}
	return p
}

// MkdirAll registers a directory (and its parents).
func (fs *FS) MkdirAll(dir string) error {
	dir = clean(dir)
	fs.mu.Lock()
	defer fs.mu.Unlock()
	if _, err := fs.point(OpMkdir, dir, 0, 0, false); err != nil {
		return err
	}
	fs.mkdirLocked(dir)
	return nil
}

func (fs *FS) mkdirLocked(dir string) {
	for d := dir; d != "" && d != "/" && d != "."; {
		fs.dirs[d] = struct{}{}
		i := strings.LastIndexByte(d, '/')
		if i <= 0 {
			break
		}
		d = d[:i]
	}
}

// Exists reports whether a file or directory exists.
func (fs *FS) Exists(path string) (bool, error) {
	path = clean(path)
	fs.mu.Lock()
	defer fs.mu.Unlock()
	if _, err := fs.point(OpStat, path, 0, 0, false); err != nil {
		return false, err
	}
	if _, ok := fs.files[path]; ok {
		return true, nil
	}
	_, ok := fs.dirs[path]
	return ok, nil
}

// Size returns the size of a file (os.ErrNotExist if absent).
func (fs *FS) Size(path string) (int64, error) {
	path = clean(path)
	fs.mu.Lock()
	defer fs.mu.Unlock()
	if _, err := fs.point(OpStat, path, 0, 0, false); err != nil {
		return 0, err
	}
	f, ok := fs.files[path]
	if !ok {
		return 0, &os.PathError{Op: "stat", Path: path, Err: os.ErrNotExist}
	}
	return int64(len(f.live)), nil
}

// List returns the sorted paths of the files directly in dir whose name ends
// in suffix.
func (fs *FS) List(dir, suffix string) ([]string, error) {
	dir = clean(dir)
	fs.mu.Lock()
	defer fs.mu.Unlock()
	if _, err := fs.point(OpList, dir, 0, 0, false); err != nil {
		return nil, err
	}
	return fs.listLocked(dir, suffix), nil
}

func (fs *FS) listLocked(dir, suffix string) []string {
	var out []string
	pre := dir + "/"
	for p := range fs.files {
		if strings.HasPrefix(p, pre) && !strings.Contains(p[len(pre):], "/") && strings.HasSuffix(p, suffix) {
			out = append(out, p)
		}
	}
	sort.Strings(out)
	return out
}

// Remove deletes a file.
func (fs *FS) Remove(path string) error {
	path = clean(path)
	fs.mu.Lock()
	defer fs.mu.Unlock()
	if _, err := fs.point(OpRemove, path, 0, 0, false); err != nil {
		return err
	}
	if _, ok := fs.files[path]; !ok {
		return &os.PathError{Op: "remove", Path: path, Err: os.ErrNotExist}
	}
	delete(fs.files, path)
	return nil
}

// OpenFile opens a file.  create: create it when absent (block-file
// semantics: never truncates).  readonly: writes fail.
func (fs *FS) OpenFile(path string, create, readonly bool) (*File, error) {
	path = clean(path)
	fs.mu.Lock()
	defer fs.mu.Unlock()
	if _, err := fs.point(OpOpen, path, 0, 0, false); err != nil {
		return nil, err
	}
	f, ok := fs.files[path]
	if !ok {
		if !create {
			return nil, &os.PathError{Op: "open", Path: path, Err: os.ErrNotExist}
		}
		f = &file{}
		fs.files[path] = f
	}
	return &File{fs: fs, f: f, path: path, readonly: readonly}, nil
}

// File is an open handle.
type File struct {
	fs       *FS
	f        *file
	path     string
	readonly bool
	closed   bool
	pos      int64
	ldb      bool
}

func (h *File) writeLocked(b []byte, off int64) (int, error) {
	fs := h.fs
	if h.closed {
		return 0, ErrClosed
	}
	if h.readonly {
		return 0, ErrReadOnly
	}
	d, err := fs.point(OpWrite, h.path, off, len(b), h.ldb)
	if err != nil {
		return 0, err
	}
	n := len(b)
	if d.Action == ActShort || d.Action == ActCrash {
		if d.N < n {
			n = d.N
		}
		if n < 0 {
			n = 0
		}
	}
	if n > 0 {
		o := wop{off: off, data: append([]byte(nil), b[:n]...)}
		h.f.pending = append(h.f.pending, o)
		h.f.live = applyOp(h.f.live, o)
	}
	if d.Action == ActCrash {
		fs.frozen = true
		return n, ErrFrozen
	}
	if d.Action == ActShort {
		return n, d.Err
	}
	return n, nil
}

// WriteAt is io.WriterAt.
func (h *File) WriteAt(b []byte, off int64) (int, error) {
	h.fs.mu.Lock()
	defer h.fs.mu.Unlock()
	return h.writeLocked(b, off)
}

// Write appends at the handle's position (leveldb writers).
func (h *File) Write(b []byte) (int, error) {
	h.fs.mu.Lock()
	defer h.fs.mu.Unlock()
	n, err := h.writeLocked(b, h.pos)
	h.pos += int64(n)
	return n, err
}

func (h *File) readLocked(b []byte, off int64) (int, error) {
	if h.closed {
		return 0, ErrClosed
	}
	if _, err := h.fs.point(OpRead, h.path, off, len(b), h.ldb); err != nil {
		return 0, err
	}
	if off >= int64(len(h.f.live)) {
		if len(b) == 0 {
			return 0, nil
		}
		return 0, io.EOF
	}
	n := copy(b, h.f.live[off:])
	if n < len(b) {
		return n, io.EOF
	}
	return n, nil
}

// ReadAt is io.ReaderAt.
func (h *File) ReadAt(b []byte, off int64) (int, error) {
	h.fs.mu.Lock()
	defer h.fs.mu.Unlock()
	return h.readLocked(b, off)
}

// Read reads at the handle's position.
func (h *File) Read(b []byte) (int, error) {
	h.fs.mu.Lock()
	defer h.fs.mu.Unlock()
	n, err := h.readLocked(b, h.pos)
	h.pos += int64(n)
	if n > 0 && err == io.EOF {
		err = nil
	}
	return n, err
}

// Seek is io.Seeker (not an I/O point).
func (h *File) Seek(off int64, whence int) (int64, error) {
	h.fs.mu.Lock()
	defer h.fs.mu.Unlock()
	switch whence {
	case io.SeekStart:
	case io.SeekCurrent:
		off += h.pos
	case io.SeekEnd:
		off += int64(len(h.f.live))
	default:
		return 0, errors.New("simfs: bad whence")
	}
	if off < 0 {
		return 0, errors.New("simfs: negative position")
	}
	h.pos = off
	return off, nil
}

// Truncate changes the file size.
func (h *File) Truncate(size int64) error {
	h.fs.mu.Lock()
	defer h.fs.mu.Unlock()
	if h.closed {
		return ErrClosed
	}
	if h.readonly {
		return ErrReadOnly
	}
	if _, err := h.fs.point(OpTruncate, h.path, size, 0, h.ldb); err != nil {
		return err
	}
	o := wop{trunc: true, off: size}
	h.f.pending = append(h.f.pending, o)
	h.f.live = applyOp(h.f.live, o)
	return nil
}

// Sync makes the current content durable.
func (h *File) Sync() error {
	h.fs.mu.Lock()
	defer h.fs.mu.Unlock()
	if h.closed {
		return ErrClosed
	}
	if _, err := h.fs.point(OpSync, h.path, 0, 0, h.ldb); err != nil {
		return err
	}
	h.f.durable = append(h.f.durable[:0:0], h.f.live...)
	h.f.pending = nil
	return nil
}

// Close closes the handle.
func (h *File) Close() error {
	h.fs.mu.Lock()
	defer h.fs.mu.Unlock()
	if h.closed {
		return ErrClosed
	}
	h.closed = true
	if _, err := h.fs.point(OpClose, h.path, 0, 0, h.ldb); err != nil {
		return err
	}
	return nil
}

// ---------------------------------------------------------------------------
// inspection without I/O points (for the harness)

// Paths returns every file path, sorted.
func (fs *FS) Paths() []string {
	fs.mu.Lock()
	defer fs.mu.Unlock()
	out := make([]string, 0, len(fs.files))
	for p := range fs.files {
		out = append(out, p)
	}
	sort.Strings(out)
	return out
}

// Peek returns a copy of the live content of a file and the number of
// unsynced operations on it.
func (fs *FS) Peek(path string) (content []byte, unsynced int, ok bool) {
	fs.mu.Lock()
	defer fs.mu.Unlock()
	f, ok := fs.files[clean(path)]
	if !ok {
		return nil, 0, false
	}
	return append([]byte(nil), f.live...), len(f.pending), true
}

// Unsynced returns the total number of unsynced operations over all files
// whose path ends in suffix.
func (fs *FS) Unsynced(suffix string) int {
	fs.mu.Lock()
	defer fs.mu.Unlock()
	n := 0
	for p, f := range fs.files {
		if strings.HasSuffix(p, suffix) {
			n += len(f.pending)
		}
	}
	return n
}

// ---------------------------------------------------------------------------
// crash images

// CrashMode selects the crash semantics.
type CrashMode uint8

// Crash modes.
const (
	// ProcessCrash keeps every completed write (the OS survived).
	ProcessCrash CrashMode = iota
	// PowerLoss keeps, per file, the durable content plus a chosen prefix of
	// the unsynced operations; files whose path ends in LooseSuffix may
	// instead keep an arbitrary subset, and the first lost write may be torn.
	PowerLoss
)

// Pick returns a value in [0,n); 0 must be the mildest choice.
type Pick func(n int, tag string) int

// CrashReport says what the image lost.
type CrashReport struct {
	FilesWithUnsynced int
	LostOps           int // unsynced operations dropped
	KeptOps           int // unsynced operations kept
	TornWrites        int
	SubsetFiles       int // files that kept a non-prefix subset
	LostInLoose       int // dropped operations in loose (block) files
}

// CrashImage builds the disk as a restarted process would find it.  The
// receiver should be frozen (it is frozen by this call).  looseSuffix names
// the files for which power loss may keep an arbitrary subset of unsynced
// writes and tear a write ("" = none).
func (fs *FS) CrashImage(mode CrashMode, pick Pick, looseSuffix string) (*FS, CrashReport) {
	fs.mu.Lock()
	defer fs.mu.Unlock()
	fs.frozen = true
	var rep CrashReport
	out := New()
	for d := range fs.dirs {
		out.dirs[d] = struct{}{}
	}
	for d, m := range fs.meta {
		out.meta[d] = m
	}
	paths := make([]string, 0, len(fs.files))
	for p := range fs.files {
		paths = append(paths, p)
	}
	sort.Strings(paths)
	for _, p := range paths {
		f := fs.files[p]
		nf := &file{}
		if mode == ProcessCrash || len(f.pending) == 0 {
			nf.live = append([]byte(nil), f.live...)
		} else {
			rep.FilesWithUnsynced++
			loose := looseSuffix != "" && strings.HasSuffix(p, looseSuffix)
			b := append([]byte(nil), f.durable...)
			n := len(f.pending)
			style := 0
			if loose {
				style = pick(3, "crash-style")
			}
			switch style {
			case 1: // arbitrary subset
				prefix := true
				dropped := false
				for _, o := range f.pending {
					if pick(2, "crash-drop") == 1 {
						dropped = true
						rep.LostOps++
						rep.LostInLoose++
						continue
					}
					if dropped {
						prefix = false
					}
					rep.KeptOps++
					b = applyOp(b, o)
				}
				if !prefix {
					rep.SubsetFiles++
				}
			default: // prefix (style 2: the first lost write is torn)
				lost := pick(n+1, "crash-lost")
				keep := n - lost
				for _, o := range f.pending[:keep] {
					b = applyOp(b, o)
				}
				rep.KeptOps += keep
				rep.LostOps += lost
				if loose {
					rep.LostInLoose += lost
				}
				if style == 2 && lost > 0 {
					o := f.pending[keep]
					if !o.trunc && len(o.data) > 1 {
						cut := 1 + pick(len(o.data)-1, "crash-tear")
						b = applyOp(b, wop{off: o.off, data: o.data[:cut]})
						rep.TornWrites++
					}
				}
			}
			nf.live = b
		}
		nf.durable = append([]byte(nil), nf.live...)
		out.files[p] = nf
	}
	return out, rep
}

// Clone returns an independent copy of the live disk (synced and unsynced
// state preserved; locks dropped; counters reset).
func (fs *FS) Clone() *FS {
	fs.mu.Lock()
	defer fs.mu.Unlock()
	out := New()
	for d := range fs.dirs {
		out.dirs[d] = struct{}{}
	}
	for d, m := range fs.meta {
		out.meta[d] = m
	}
	for p, f := range fs.files {
		nf := &file{durable: append([]byte(nil), f.durable...), live: append([]byte(nil), f.live...)}
		for _, o := range f.pending {
			nf.pending = append(nf.pending, wop{trunc: o.trunc, off: o.off, data: append([]byte(nil), o.data...)})
		}
		out.files[p] = nf
	}
	return out
}

//go:debug randseednop=0
package smoke

import (
	"testing"
	"time"

	"verif/harness/simkit"
)

func TestWorker(t *testing.T) {
	simkit.WorkerMain(t, simkit.Options{Engine: "smoke"}, func(r *simkit.Run) {
		time.Sleep(time.Hour)
		r.MarkEpoch()
		n := simkit.Range(r.C, 1, 20, "n")
		sum := 0
		for i := 0; i < n; i++ {
			v := r.C.Intn(10, "v")
			r.Event("add", "%d", v)
			sum += v
			time.Sleep(time.Second)
		}
		r.Sig("n")
		r.NonTrivial()
		r.State("sum=%d", sum)
		if sum > 1000 {
			r.Violate("C99", "sum-small", "", "sum=%d", sum)
		}
	})
}

// Package memdb is a small in-memory implementation of btcd's database.DB used
// as the storage STUB under the real blockchain package in chainsim.  Every
// committed state is immutable and kept in a commit log, so a crash at any
// commit boundary ("only the first n commits survived") is an O(1) operation.
// It is written from database/interface.go, not from ffldb.
package memdb

import (
	"bytes"
	"fmt"
	"sort"
	"sync"

	"github.com/btcsuite/btcd/btcutil/v2"
	"github.com/btcsuite/btcd/chainhash/v2"
	"github.com/btcsuite/btcd/database"
)

type bucket struct {
	kv  map[string][]byte
	sub map[string]*bucket
}

func newBucket() *bucket { return &bucket{kv: map[string][]byte{}, sub: map[string]*bucket{}} }

func (b *bucket) clone() *bucket {
	n := &bucket{kv: make(map[string][]byte, len(b.kv)), sub: make(map[string]*bucket, len(b.sub))}
	for k, v := range b.kv {
		n.kv[k] = v // values are never mutated in place
	}
	for k, v := range b.sub {
		n.sub[k] = v.clone()
	}
	return n
}

type blockRec struct {
	data []byte
	file uint32
}

// state is one committed version of the database.
type state struct {
	root     *bucket
	blocks   map[chainhash.Hash]*blockRec
	order    []chainhash.Hash // storage order
	curFile  uint32
	curSize  uint32
	firstFil uint32
}

func (s *state) clone() *state {
	n := &state{root: s.root.clone(), blocks: make(map[chainhash.Hash]*blockRec, len(s.blocks)),
		order: append([]chainhash.Hash{}, s.order...), curFile: s.curFile, curSize: s.curSize, firstFil: s.firstFil}
	for k, v := range s.blocks {
		n.blocks[k] = v
	}
	return n
}

// DB implements database.DB.
type DB struct {
	mu          sync.RWMutex // state pointer + log
	wmu         sync.Mutex   // single writer
	cur         *state
	log         []*state // log[i] = state after i commits (log[0] = empty)
	closed      bool
	MaxFileSize uint32
	// FailCommit, when non-nil, is consulted at every Commit of a writable
	// transaction with the number of commits so far; a non-nil error makes the
	// commit fail (and roll back).
	FailCommit func(commits int) error
	// OnCommit is called after each successful commit.
	OnCommit func(commits int)
}

// New creates an empty database.
func New(maxFileSize uint32) *DB {
	if maxFileSize == 0 {
		maxFileSize = 512 << 20
	}
	s := &state{root: newBucket(), blocks: map[chainhash.Hash]*blockRec{}}
	return &DB{cur: s, log: []*state{s}, MaxFileSize: maxFileSize}
}

// Commits returns the number of committed write transactions.
func (db *DB) Commits() int {
	db.mu.RLock()
	defer db.mu.RUnlock()
	return len(db.log) - 1
}

// CrashPrefix returns a new open database holding the state after the first
// n commits (what survives a crash that lost everything after them).
func (db *DB) CrashPrefix(n int) *DB {
	db.mu.RLock()
	defer db.mu.RUnlock()
	if n < 0 || n >= len(db.log) {
		n = len(db.log) - 1
	}
	return &DB{cur: db.log[n], log: append([]*state{}, db.log[:n+1]...), MaxFileSize: db.MaxFileSize}
}

// Clone returns an independent open copy of the current committed state.
func (db *DB) Clone() *DB { return db.CrashPrefix(-1) }

// Reopen marks a closed database open again (clean restart: all commits kept).
func (db *DB) Reopen() *DB {
	db.mu.Lock()
	defer db.mu.Unlock()
	return &DB{cur: db.cur, log: append([]*state{}, db.log...), MaxFileSize: db.MaxFileSize}
}

func (db *DB) Type() string { return "memdb" }

func dbErr(code database.ErrorCode, desc string) error {
	return database.Error{ErrorCode: code, Description: desc}
}

func (db *DB) Begin(writable bool) (database.Tx, error) {
	if writable {
		db.wmu.Lock()
	}
	db.mu.RLock()
	defer db.mu.RUnlock()
	if db.closed {
		if writable {
			db.wmu.Unlock()
		}
		return nil, dbErr(database.ErrDbNotOpen, "database is not open")
	}
	t := &tx{db: db, writable: writable, snap: db.cur}
	if writable {
		t.work = db.cur.clone()
	} else {
		t.work = db.cur
	}
	return t, nil
}

func (db *DB) View(fn func(database.Tx) error) error {
	t, err := db.Begin(false)
	if err != nil {
		return err
	}
	defer func() {
		if !t.(*tx).closed {
			t.Rollback()
		}
	}()
	if err := fn(t); err != nil {
		t.Rollback()
		return err
	}
	return t.Rollback()
}

func (db *DB) Update(fn func(database.Tx) error) error {
	t, err := db.Begin(true)
	if err != nil {
		return err
	}
	defer func() {
		if !t.(*tx).closed {
			t.Rollback()
		}
	}()
	if err := fn(t); err != nil {
		t.Rollback()
		return err
	}
	return t.Commit()
}

func (db *DB) Close() error {
	db.wmu.Lock()
	defer db.wmu.Unlock()
	db.mu.Lock()
	defer db.mu.Unlock()
	if db.closed {
		return dbErr(database.ErrDbNotOpen, "database is not open")
	}
	db.closed = true
	return nil
}

type tx struct {
	db       *DB
	writable bool
	closed   bool
	snap     *state
	work     *state
}

func (t *tx) check() error {
	if t.closed {
		return dbErr(database.ErrTxClosed, "transaction is closed")
	}
	return nil
}

func (t *tx) Metadata() database.Bucket { return &bkt{tx: t, b: t.work.root} }

func (t *tx) StoreBlock(block *btcutil.Block) error {
	if err := t.check(); err != nil {
		return err
	}
	if !t.writable {
		return dbErr(database.ErrTxNotWritable, "store block requires a writable transaction")
	}
	h := *block.Hash()
	if _, ok := t.work.blocks[h]; ok {
		return dbErr(database.ErrBlockExists, fmt.Sprintf("block %s already exists", h))
	}
	raw, err := block.Bytes()
	if err != nil {
		return dbErr(database.ErrDriverSpecific, err.Error())
	}
	rec := uint32(len(raw) + 12)
	s := t.work
	if s.curSize+rec > t.db.MaxFileSize && s.curSize > 0 {
		s.curFile++
		s.curSize = 0
	}
	s.curSize += rec
	s.blocks[h] = &blockRec{data: append([]byte{}, raw...), file: s.curFile}
	s.order = append(s.order, h)
	return nil
}

func (t *tx) HasBlock(hash *chainhash.Hash) (bool, error) {
	if err := t.check(); err != nil {
		return false, err
	}
	_, ok := t.work.blocks[*hash]
	return ok, nil
}

func (t *tx) HasBlocks(hashes []chainhash.Hash) ([]bool, error) {
	if err := t.check(); err != nil {
		return nil, err
	}
	out := make([]bool, len(hashes))
	for i := range hashes {
		_, out[i] = t.work.blocks[hashes[i]]
	}
	return out, nil
}

func (t *tx) fetch(hash *chainhash.Hash) ([]byte, error) {
	if err := t.check(); err != nil {
		return nil, err
	}
	r, ok := t.work.blocks[*hash]
	if !ok {
		return nil, dbErr(database.ErrBlockNotFound, fmt.Sprintf("block %s does not exist", hash))
	}
	return r.data, nil
}

func (t *tx) FetchBlockHeader(hash *chainhash.Hash) ([]byte, error) {
	b, err := t.fetch(hash)
	if err != nil {
		return nil, err
	}
	return b[:80], nil
}

func (t *tx) FetchBlockHeaders(hashes []chainhash.Hash) ([][]byte, error) {
	out := make([][]byte, len(hashes))
	for i := range hashes {
		b, err := t.FetchBlockHeader(&hashes[i])
		if err != nil {
			return nil, err
		}
		out[i] = b
	}
	return out, nil
}

func (t *tx) FetchBlock(hash *chainhash.Hash) ([]byte, error) { return t.fetch(hash) }

func (t *tx) FetchBlocks(hashes []chainhash.Hash) ([][]byte, error) {
	out := make([][]byte, len(hashes))
	for i := range hashes {
		b, err := t.fetch(&hashes[i])
		if err != nil {
			return nil, err
		}
		out[i] = b
	}
	return out, nil
}

func (t *tx) FetchBlockRegion(region *database.BlockRegion) ([]byte, error) {
	b, err := t.fetch(region.Hash)
	if err != nil {
		return nil, err
	}
	end := uint64(region.Offset) + uint64(region.Len)
	if end > uint64(len(b)) {
		return nil, dbErr(database.ErrBlockRegionInvalid, "block region exceeds block")
	}
	return b[region.Offset:end], nil
}

func (t *tx) FetchBlockRegions(regions []database.BlockRegion) ([][]byte, error) {
	out := make([][]byte, len(regions))
	for i := range regions {
		b, err := t.FetchBlockRegion(&regions[i])
		if err != nil {
			return nil, err
		}
		out[i] = b
	}
	return out, nil
}

// PruneBlocks emulates flat block files of MaxFileSize bytes: whole files are
// deleted oldest first (never the current one) while the estimated total
// exceeds the target.
func (t *tx) PruneBlocks(targetSize uint64) ([]chainhash.Hash, error) {
	if err := t.check(); err != nil {
		return nil, err
	}
	if !t.writable {
		return nil, dbErr(database.ErrTxNotWritable, "prune blocks requires a writable transaction")
	}
	maxSize := uint64(t.db.MaxFileSize)
	if targetSize < maxSize {
		return nil, fmt.Errorf("got target size of %d but it must be greater than %d, the max size of a single block file", targetSize, maxSize)
	}
	s := t.work
	first, last := s.firstFil, s.curFile
	if first == last {
		return nil, nil
	}
	total := uint64(s.curSize) + maxSize*uint64(last-first)
	if total <= targetSize {
		return nil, nil
	}
	del := map[uint32]bool{}
	for i := first; i < last; i++ {
		del[i] = true
		s.firstFil = i + 1
		total -= maxSize
		if total <= targetSize {
			break
		}
	}
	var out []chainhash.Hash
	var keep []chainhash.Hash
	for _, h := range s.order {
		if del[s.blocks[h].file] {
			out = append(out, h)
			delete(s.blocks, h)
		} else {
			keep = append(keep, h)
		}
	}
	s.order = keep
	return out, nil
}

func (t *tx) BeenPruned() (bool, error) {
	if err := t.check(); err != nil {
		return false, err
	}
	return t.work.firstFil != 0, nil
}

func (t *tx) Commit() error {
	if err := t.check(); err != nil {
		return err
	}
	if !t.writable {
		t.closed = true
		return dbErr(database.ErrTxNotWritable, "Commit requires a writable database transaction")
	}
	t.closed = true
	defer t.db.wmu.Unlock()
	db := t.db
	db.mu.Lock()
	n := len(db.log) - 1
	if db.FailCommit != nil {
		if err := db.FailCommit(n); err != nil {
			db.mu.Unlock()
			return err
		}
	}
	db.cur = t.work
	db.log = append(db.log, t.work)
	cb := db.OnCommit
	db.mu.Unlock()
	if cb != nil {
		cb(n + 1)
	}
	return nil
}

func (t *tx) Rollback() error {
	if err := t.check(); err != nil {
		return err
	}
	t.closed = true
	if t.writable {
		t.db.wmu.Unlock()
	}
	return nil
}

type bkt struct {
	tx *tx
	b  *bucket
}

func (b *bkt) Bucket(key []byte) database.Bucket {
	if b.tx.closed {
		return nil
	}
	s, ok := b.b.sub[string(key)]
	if !ok {
		return nil
	}
	return &bkt{tx: b.tx, b: s}
}

func (b *bkt) CreateBucket(key []byte) (database.Bucket, error) {
	if err := b.tx.check(); err != nil {
		return nil, err
	}
	if !b.tx.writable {
		return nil, dbErr(database.ErrTxNotWritable, "create bucket requires a writable transaction")
	}
	if len(key) == 0 {
		return nil, dbErr(database.ErrBucketNameRequired, "create bucket requires a key")
	}
	if _, ok := b.b.sub[string(key)]; ok {
		return nil, dbErr(database.ErrBucketExists, "bucket already exists")
	}
	if _, ok := b.b.kv[string(key)]; ok {
		return nil, dbErr(database.ErrIncompatibleValue, "key exists with a value")
	}
	n := newBucket()
	b.b.sub[string(key)] = n
	return &bkt{tx: b.tx, b: n}, nil
}

func (b *bkt) CreateBucketIfNotExists(key []byte) (database.Bucket, error) {
	if err := b.tx.check(); err != nil {
		return nil, err
	}
	if !b.tx.writable {
		return nil, dbErr(database.ErrTxNotWritable, "create bucket requires a writable transaction")
	}
	if s := b.Bucket(key); s != nil {
		return s, nil
	}
	return b.CreateBucket(key)
}

func (b *bkt) DeleteBucket(key []byte) error {
	if err := b.tx.check(); err != nil {
		return err
	}
	if !b.tx.writable {
		return dbErr(database.ErrTxNotWritable, "delete bucket requires a writable transaction")
	}
	if _, ok := b.b.sub[string(key)]; !ok {
		return dbErr(database.ErrBucketNotFound, "bucket does not exist")
	}
	delete(b.b.sub, string(key))
	return nil
}

func (b *bkt) sortedKeys(kv, sub bool) []string {
	var ks []string
	if kv {
		for k := range b.b.kv {
			ks = append(ks, k)
		}
	}
	if sub {
		for k := range b.b.sub {
			ks = append(ks, k)
		}
	}
	sort.Strings(ks)
	return ks
}

func (b *bkt) ForEach(fn func(k, v []byte) error) error {
	if err := b.tx.check(); err != nil {
		return err
	}
	for _, k := range b.sortedKeys(true, false) {
		if err := fn([]byte(k), b.b.kv[k]); err != nil {
			return err
		}
	}
	return nil
}

func (b *bkt) ForEachBucket(fn func(k []byte) error) error {
	if err := b.tx.check(); err != nil {
		return err
	}
	for _, k := range b.sortedKeys(false, true) {
		if err := fn([]byte(k)); err != nil {
			return err
		}
	}
	return nil
}

func (b *bkt) Cursor() database.Cursor {
	return &cursor{b: b, keys: b.sortedKeys(true, true), pos: -1}
}

func (b *bkt) Writable() bool { return b.tx.writable }

func (b *bkt) Put(key, value []byte) error {
	if err := b.tx.check(); err != nil {
		return err
	}
	if !b.tx.writable {
		return dbErr(database.ErrTxNotWritable, "put requires a writable transaction")
	}
	if len(key) == 0 {
		return dbErr(database.ErrKeyRequired, "put requires a key")
	}
	if _, ok := b.b.sub[string(key)]; ok {
		return dbErr(database.ErrIncompatibleValue, "key is a bucket")
	}
	b.b.kv[string(key)] = append([]byte{}, value...)
	return nil
}

func (b *bkt) Get(key []byte) []byte {
	if b.tx.closed || len(key) == 0 {
		return nil
	}
	v, ok := b.b.kv[string(key)]
	if !ok {
		return nil
	}
	if v == nil {
		return []byte{}
	}
	return v
}

func (b *bkt) Delete(key []byte) error {
	if err := b.tx.check(); err != nil {
		return err
	}
	if !b.tx.writable {
		return dbErr(database.ErrTxNotWritable, "delete requires a writable transaction")
	}
	if len(key) == 0 {
		return nil
	}
	if _, ok := b.b.sub[string(key)]; ok {
		return dbErr(database.ErrIncompatibleValue, "key is a bucket")
	}
	delete(b.b.kv, string(key))
	return nil
}

type cursor struct {
	b    *bkt
	keys []string
	pos  int
}

func (c *cursor) Bucket() database.Bucket { return c.b }

func (c *cursor) valid() bool { return c.pos >= 0 && c.pos < len(c.keys) }

func (c *cursor) Delete() error {
	if err := c.b.tx.check(); err != nil {
		return err
	}
	if !c.valid() {
		return dbErr(database.ErrIncompatibleValue, "cursor is exhausted")
	}
	if !c.b.tx.writable {
		return dbErr(database.ErrTxNotWritable, "delete requires a writable transaction")
	}
	k := c.keys[c.pos]
	if _, ok := c.b.b.sub[k]; ok {
		return dbErr(database.ErrIncompatibleValue, "buckets may not be deleted from a cursor")
	}
	delete(c.b.b.kv, k)
	return nil
}

func (c *cursor) First() bool {
	if c.b.tx.closed {
		return false
	}
	c.pos = 0
	return c.valid()
}

func (c *cursor) Last() bool {
	if c.b.tx.closed {
		return false
	}
	c.pos = len(c.keys) - 1
	return c.valid()
}

func (c *cursor) Next() bool {
	if c.b.tx.closed || c.pos >= len(c.keys) {
		return false
	}
	c.pos++
	return c.valid()
}

func (c *cursor) Prev() bool {
	if c.b.tx.closed || c.pos < 0 {
		return false
	}
	c.pos--
	return c.valid()
}

func (c *cursor) Seek(seek []byte) bool {
	if c.b.tx.closed {
		return false
	}
	c.pos = sort.Search(len(c.keys), func(i int) bool { return bytes.Compare([]byte(c.keys[i]), seek) >= 0 })
	return c.valid()
}

func (c *cursor) Key() []byte {
	if !c.valid() {
		return nil
	}
	return []byte(c.keys[c.pos])
}

func (c *cursor) Value() []byte {
	if !c.valid() {
		return nil
	}
	k := c.keys[c.pos]
	if _, ok := c.b.b.sub[k]; ok {
		return nil
	}
	v := c.b.b.kv[k]
	if v == nil {
		return []byte{}
	}
	return v
}

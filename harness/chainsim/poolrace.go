package chainsim

import (
	"fmt"
	"sync"

	"github.com/btcsuite/btcd/btcutil/v2"
	"github.com/btcsuite/btcd/mempool"

	"verif/harness/simkit"
)

// runPoolRace is the concurrent-callers mode of C10: K goroutines are handed
// slices of one operation list and released together from a quiescent point
// (plus a block connect from another goroutine).  After the burst the
// whole-pool invariants must hold and every call must have returned.  Which
// interleaving the runtime picks is NOT replayable; the binary is built with
// the race detector, whose reports are the evidence for state touched outside
// the locks.
func (s *Sim) runPoolRace() {
	r := s.r
	c := r.C
	w := s.w
	n := s.n
	// a short chain with spendable outputs
	nblocks := simkit.Range(c, int(w.Net.Maturity)+3, int(w.Net.Maturity)+10, "race-blocks")
	for i := 0; i < nblocks; i++ {
		b := w.Build(s.n.Tip(), BlockOpts{NTx: c.Intn(3, "ntx")})
		s.ensureClock(b)
		s.Deliver(b)
	}
	s.CheckState("race-setup")
	rounds := simkit.Range(c, 1, 4, "race-rounds")
	for round := 0; round < rounds; round++ {
		// operation list built from the quiescent state
		type op struct {
			kind int
			tx   *MTx
		}
		var ops []op
		nops := simkit.Range(c, 6, 30, "race-ops")
		for i := 0; i < nops; i++ {
			t := s.buildPoolTx(simkit.Pick(c, "ptx-kind", 50, 20, 20, 10))
			if t == nil {
				continue
			}
			ops = append(ops, op{simkit.Pick(c, "race-op", 40, 15, 30, 5, 10), t})
		}
		if len(ops) == 0 {
			continue
		}
		var blk *MBlock
		if c.Bool(500, "race-block") {
			blk = w.Build(s.n.Tip(), BlockOpts{NTx: 2})
			s.ensureClock(blk)
		}
		k := simkit.Range(c, 2, 8, "race-callers")
		overlap := c.Bool(400, "race-overlap")
		r.Event("race-burst", "round=%d ops=%d callers=%d overlap=%v block=%v", round, len(ops), k, overlap, blk != nil)
		r.Sig(fmt.Sprintf("burst:%d:%v:%v", k, overlap, blk != nil))
		r.Fault("concurrent_burst")
		var wg sync.WaitGroup
		gate := make(chan struct{})
		for g := 0; g < k; g++ {
			var mine []op
			for i, o := range ops {
				if i%k == g || (overlap && (i+1)%k == g) {
					mine = append(mine, o)
				}
			}
			wg.Add(1)
			go func(mine []op) {
				defer wg.Done()
				<-gate
				for _, o := range mine {
					btx := btcutil.NewTx(o.tx.Msg)
					switch o.kind {
					case 0:
						n.Pool.ProcessTransaction(btx, true, false, mempool.Tag(1))
					case 1:
						n.Pool.CheckMempoolAcceptance(btx)
					case 2:
						// (the block-disconnect handler re-submits with
						// isNew=false, rateLimit=false)
						if o.tx.Hash[0]&1 == 0 {
							n.Pool.MaybeAcceptTransaction(btx, false, false)
						} else {
							n.Pool.MaybeAcceptTransaction(btx, true, true)
						}
					case 3:
						n.Pool.RemoveTransaction(btx, true)
					case 4:
						// what an RPC caller does concurrently
						n.Chain.FetchUtxoView(btx)
						for _, in := range o.tx.Ins {
							n.Chain.FetchUtxoEntry(in)
						}
						n.Pool.TxDescs()
						n.Pool.CheckSpend(o.tx.Ins[0])
					}
				}
			}(mine)
		}
		if blk != nil {
			wg.Add(1)
			go func() {
				defer wg.Done()
				<-gate
				n.Chain.ProcessBlock(btcutil.NewBlock(blk.Msg), 0)
			}()
		}
		close(gate)
		wg.Wait()
		if blk != nil {
			s.delivered[blk] = true
		}
		s.CheckState("race-burst")
		s.CheckPool("race-burst")
		s.ps.accepted += n.Pool.Count()
	}
	s.CheckMinable()
	r.NonTrivial()
	r.Count("race_bursts", rounds)
}

package chainsim

import (
	"fmt"

	"github.com/btcsuite/btcd/blockchain"
	"github.com/btcsuite/btcd/chainhash/v2"
	"github.com/btcsuite/btcd/wire/v2"

	"verif/harness/simkit"
)

// headerDetectable: mutations a node can detect from the 80-byte header alone.
var headerDetectable = map[string]bool{
	"pow-hash-above-target": true, "timestamp-equals-mtp": true, "bits-not-required": true,
	"version-too-old": true, "bip94-timewarp": true,
}

// hdrState is the model of headers-first tracking for one node instance.
type hdrState struct {
	accepted map[*MBlock]bool // accepted through header delivery (this instance)
	order    []*MBlock        // in acceptance order
	start    *MBlock          // best-header tip when the instance was opened
	unsure   bool             // a header verdict was not determined by the model
}

func (s *Sim) resetHeaders() {
	s.hdr = &hdrState{accepted: map[*MBlock]bool{}, start: s.n.Tip()}
}

// nodeKnown: the node has an index entry for b (header or block).
func (s *Sim) nodeKnown(b *MBlock) bool {
	if b.Height == 0 {
		return true
	}
	_, err := s.n.Chain.HeaderByHash(&b.Hash)
	return err == nil
}

// headerValid: every header rule holds for b and all its ancestors (what can
// be judged from headers alone).
func headerChainValid(b *MBlock) bool {
	for n := b; n != nil; n = n.Parent {
		if n.Class != ClsValid && headerDetectable[n.Reason] {
			return false
		}
	}
	return true
}

// DeliverHeader hands b's header to ProcessBlockHeader and judges the call.
func (s *Sim) DeliverHeader(b *MBlock) {
	r := s.r
	h := b.Msg.Header
	parentKnown := s.nodeKnown(b.Parent)
	// (a header the node already has may or may not be judged against the
	// clock again)
	lateDup := b.H.ts > s.adjNow()+7200 && s.nodeKnown(b)
	tooNew := b.H.ts > s.adjNow()+7200 && !lateDup
	ownBad := b.Class != ClsValid && headerDetectable[b.Reason]
	knownBefore := s.nodeKnown(b)
	isMain, err := s.n.Chain.ProcessBlockHeader(&h, blockchain.BFNone, false)
	res := "ok"
	if err != nil {
		res = "rule-error"
		if !isRule(err) {
			res = "internal-error"
		}
	}
	r.Event("header", "%v parent=%v class=%q -> main=%v %s", b, b.Parent, b.Class, isMain, res)
	r.Sig("h:" + b.Class)
	if err != nil && !isRule(err) {
		r.Violate("C17", "no-internal-error", "", "ProcessBlockHeader(%v): %v", b, err)
	}
	switch {
	case !parentKnown:
		if err == nil {
			r.Violate("C17", "orphan-header-refused", "", "header %v whose parent %v is unknown was accepted", b, b.Parent)
		}
		r.Probe("orphan-header-refused")
	case ownBad || tooNew:
		if err == nil {
			r.Violate("C09", "invalid-header-rejected", "", "header %v (%s, tooNew=%v) violates a header rule but was accepted", b, b.Reason, tooNew)
		}
		r.Probe("invalid-header-judged")
		s.judgedInv++
	case lateDup:
		r.Probe("known-header-redelivered-when-too-new")
	case s.failedAttach[b.Parent] && s.nodeKnown(b.Parent) && !knownBefore:
		// the parent is part of a branch the node itself found invalid
		// while attaching it
		if err == nil {
			r.Violate("C17", "header-on-known-invalid-refused", "", "header %v extends %v, which the node found invalid (or below an invalid block) when it tried to attach that branch, but was accepted", b, b.Parent)
		}
		r.Probe("header-on-failed-branch-refused")
	case s.excluded(b.Parent) && s.markedInvalid[b.Parent] && s.nodeKnown(b.Parent):
		// the parent was invalidated by the operator (directly or through an
		// ancestor): the node knows it is invalid
		if err == nil {
			r.Violate("C17", "header-on-known-invalid-refused", "", "header %v extends %v, which the node knows to be invalid (invalidated), but was accepted", b, b.Parent)
		}
		r.Probe("header-on-invalidated-branch-refused")
	case b.Parent.ChainValid() && !s.excluded(b) && (b.Class == ClsValid || !s.delivered[b]):
		// nothing on the path can be known invalid
		if err != nil {
			r.Violate("C17", "valid-header-accepted", "", "header %v (own defect %q is not visible in a header) on a fully valid chain was refused: %v", b, b.Reason, err)
		}
	default:
		// an ancestor is invalid in a way the node may or may not know yet
		if err != nil {
			r.Probe("header-on-invalid-branch-refused")
		}
	}
	if err == nil {
		if !s.hdr.accepted[b] {
			s.hdr.accepted[b] = true
			s.hdr.order = append(s.hdr.order, b)
		}
	}
}

// bestHeaderModel: most work among headers accepted through header delivery
// (and the tip the instance started with), first seen on ties.
func (s *Sim) bestHeaderModel() *MBlock {
	best := s.hdr.start
	for _, b := range s.hdr.order {
		if b.Work.Cmp(best.Work) > 0 {
			best = b
		}
	}
	return best
}

func chainOf(tip *MBlock) []*MBlock {
	out := make([]*MBlock, tip.Height+1)
	for b := tip; b != nil; b = b.Parent {
		out[b.Height] = b
	}
	return out
}

// locatorModel is Bitcoin's block locator: the block, its 10 predecessors one
// by one, then doubling steps, always ending with genesis.
func locatorModel(b *MBlock) []*MBlock {
	var out []*MBlock
	step := int32(1)
	n := b
	for n != nil {
		out = append(out, n)
		if n.Height == 0 {
			break
		}
		h := n.Height - step
		if h < 0 {
			h = 0
		}
		for n.Height > h {
			n = n.Parent
		}
		if len(out) > 10 {
			step *= 2
		}
	}
	return out
}

func sameHashes(got []chainhash.Hash, want []*MBlock) bool {
	if len(got) != len(want) {
		return false
	}
	for i := range got {
		if got[i] != want[i].Hash {
			return false
		}
	}
	return true
}

// locateModel: the documented contract of LocateBlocks/LocateHeaders.
func (s *Sim) locateModel(chain []*MBlock, loc []*chainhash.Hash, stop *chainhash.Hash, max int) []*MBlock {
	tip := chain[len(chain)-1]
	var stopB *MBlock
	if b := s.w.ByHash[*stop]; b != nil && s.nodeKnown(b) {
		stopB = b
	}
	if len(loc) == 0 {
		if stopB == nil {
			return nil
		}
		return []*MBlock{stopB}
	}
	start := chain[0]
	for _, h := range loc {
		if b := s.w.ByHash[*h]; b != nil && b.IsAncestorOf(tip) {
			start = b
			break
		}
	}
	var out []*MBlock
	for h := start.Height + 1; h <= tip.Height && len(out) < max; h++ {
		out = append(out, chain[h])
		if stopB != nil && chain[h] == stopB {
			break
		}
	}
	return out
}

// CheckQueries compares block-index queries with naive walks (C17).
func (s *Sim) CheckQueries() {
	r := s.r
	c := r.C
	w := s.w
	ch := s.n.Chain
	tip := s.n.Tip()
	chain := chainOf(tip)
	r.Count("index_query_batches", 1)

	// --- best header view
	bh, bhh := ch.BestHeader()
	if !s.hdr.unsure {
		want := s.bestHeaderModel()
		if bh != want.Hash || bhh != want.Height {
			r.Violate("C17", "best-header", "", "BestHeader()=%v@%d, most-work accepted header chain ends at %v", s.w.ByHash[bh], bhh, want)
		}
		hc := chainOf(want)
		for _, b := range w.Blocks {
			onHdr := b.IsAncestorOf(want)
			got := ch.IsValidHeader(&b.Hash)
			if !onHdr && got {
				r.Violate("C17", "best-header-views", "", "IsValidHeader(%v)=true but the block is not on the best header chain (tip %v)", b, want)
			}
			if onHdr && !got && b.ChainValid() && !s.excluded(b) {
				r.Violate("C17", "best-header-views", "", "IsValidHeader(%v)=false for a valid header on the best header chain (tip %v)", b, want)
			}
			hh, err := ch.HeaderHeightByHash(b.Hash)
			if onHdr && (err != nil || hh != b.Height) {
				r.Violate("C17", "best-header-views", "", "HeaderHeightByHash(%v)=%d,%v want %d", b, hh, err, b.Height)
			}
			if !onHdr && err == nil {
				r.Violate("C17", "best-header-views", "", "HeaderHeightByHash(%v) succeeds off the best header chain", b)
			}
		}
		for h := int32(0); h <= want.Height+1; h++ {
			hash, err := ch.HeaderHashByHeight(h)
			if h > want.Height {
				if err == nil {
					r.Violate("C17", "best-header-views", "", "HeaderHashByHeight(%d) succeeds beyond the best header height %d", h, want.Height)
				}
				continue
			}
			if err != nil || *hash != hc[h].Hash {
				r.Violate("C17", "best-header-views", "", "HeaderHashByHeight(%d)=%v,%v want %v", h, hash, err, hc[h])
			}
		}
		// fork point between best chain and best header chain
		fork := want
		for !fork.IsAncestorOf(tip) {
			fork = fork.Parent
		}
		if got := ch.BestChainHeaderForkHeight(); got != fork.Height {
			r.Violate("C17", "best-header-views", "", "BestChainHeaderForkHeight()=%d, naive fork point of %v and %v is at %d", got, tip, want, fork.Height)
		}
	}

	// --- locators
	ll, _ := ch.LatestBlockLocator()
	wantLoc := locatorModel(tip)
	got := make([]chainhash.Hash, len(ll))
	for i := range ll {
		got[i] = *ll[i]
	}
	if !sameHashes(got, wantLoc) {
		r.Violate("C17", "block-locator", "", "LatestBlockLocator() at %v has %d entries, naive construction %v", tip, len(ll), fmtBlocks(wantLoc))
	}
	for i := 0; i < 3; i++ {
		b := w.Blocks[c.Intn(len(w.Blocks), "loc-from")]
		l := ch.BlockLocatorFromHash(&b.Hash)
		want := locatorModel(b)
		if !s.nodeKnown(b) {
			want = wantLoc // unknown hash: locator of the tip
		}
		g := make([]chainhash.Hash, len(l))
		for i := range l {
			g[i] = *l[i]
		}
		if !sameHashes(g, want) {
			r.Violate("C17", "block-locator", "", "BlockLocatorFromHash(%v known=%v) = %d entries, naive walk gives %v", b, s.nodeKnown(b), len(l), fmtBlocks(want))
		}
	}

	// --- locate blocks / headers
	pick := func(tag string) *chainhash.Hash {
		switch simkit.Pick(c, tag, 3, 5, 1) {
		case 0:
			return &chainhash.Hash{}
		case 1:
			return &w.Blocks[c.Intn(len(w.Blocks), tag+"-b")].Hash
		default:
			var h chainhash.Hash
			copy(h[:], c.Bytes(32, tag+"-rnd"))
			h[31] |= 0x80
			return &h
		}
	}
	for i := 0; i < 4; i++ {
		var loc []*chainhash.Hash
		switch simkit.Pick(c, "loc-kind", 1, 3, 3, 1) {
		case 0: // empty
		case 1: // genuine locator of some block
			for _, b := range locatorModel(w.Blocks[c.Intn(len(w.Blocks), "loc-of")]) {
				loc = append(loc, &b.Hash)
			}
		case 2: // arbitrary hashes: side chains, unknown, out of order
			n := simkit.Range(c, 1, 5, "loc-n")
			for j := 0; j < n; j++ {
				loc = append(loc, pick("loc-h"))
			}
		case 3: // only unknown hashes
			loc = append(loc, pick("loc-u"))
		}
		stop := pick("stop")
		max := simkit.Range(c, 1, len(chain)+2, "max")
		want := s.locateModel(chain, loc, stop, max)
		gotB := ch.LocateBlocks(blockchain.BlockLocator(loc), stop, uint32(max))
		if !sameHashes(gotB, want) {
			r.Violate("C17", "locate-blocks", "", "LocateBlocks(locator of %d hashes, stop=%v, max=%d) returned %d hashes, naive walk on the active chain (tip %v) gives %v", len(loc), w.ByHash[*stop], max, len(gotB), tip, fmtBlocks(want))
		}
		wantH := s.locateModel(chain, loc, stop, wire.MaxBlockHeadersPerMsg)
		gotH := ch.LocateHeaders(blockchain.BlockLocator(loc), stop)
		gh := make([]chainhash.Hash, len(gotH))
		for i := range gotH {
			gh[i] = gotH[i].BlockHash()
		}
		if !sameHashes(gh, wantH) {
			r.Violate("C17", "locate-headers", "", "LocateHeaders(locator of %d hashes, stop=%v) returned %d headers, naive walk gives %v", len(loc), w.ByHash[*stop], len(gotH), fmtBlocks(wantH))
		}
		if len(loc) == 0 {
			r.Probe("locate-empty-locator")
		}
	}

	// --- height ranges
	for i := 0; i < 3; i++ {
		a := int32(c.Intn(len(chain)+3, "hr-a")) - 1
		b := int32(c.Intn(len(chain)+3, "hr-b")) - 1
		hs, err := ch.HeightRange(a, b)
		if a < 0 || b < a {
			if err == nil {
				r.Violate("C17", "height-range", "", "HeightRange(%d,%d) must fail", a, b)
			}
			continue
		}
		var want []*MBlock
		for h := a; h < b && h <= tip.Height; h++ {
			want = append(want, chain[h])
		}
		if err != nil || !sameHashes(hs, want) {
			r.Violate("C17", "height-range", "", "HeightRange(%d,%d) at tip %v = %d hashes err=%v, want %v", a, b, tip, len(hs), err, fmtBlocks(want))
		}
	}
	// HeightToHashRange / IntervalBlockHashes: end blocks that were validated
	var validated []*MBlock
	for _, b := range w.Blocks[1:] {
		if s.everInv && !b.IsAncestorOf(tip) {
			continue // manual invalidation clears the validated status of whole subtrees
		}
		if s.n.EverActive[b] && s.accepted(b) && !s.excluded(b) && !s.restartedSince(b) {
			validated = append(validated, b)
		}
	}
	for i := 0; i < 3 && len(validated) > 0; i++ {
		end := validated[c.Intn(len(validated), "end")]
		ec := chainOf(end)
		start := int32(c.Intn(int(end.Height)+3, "h2h-start")) - 1
		max := simkit.Range(c, 1, len(ec)+1, "h2h-max")
		hs, err := ch.HeightToHashRange(start, &end.Hash, max)
		n := int(end.Height-start) + 1
		if start < 0 || start > end.Height || n > max {
			if err == nil {
				r.Violate("C17", "height-to-hash-range", "", "HeightToHashRange(%d,%v,%d) must fail", start, end, max)
			}
		} else if err != nil || !sameHashes(hs, ec[start:]) {
			r.Violate("C17", "height-to-hash-range", "", "HeightToHashRange(%d,%v,%d) = %d hashes err=%v, want ancestors %v", start, end, max, len(hs), err, fmtBlocks(ec[start:]))
		}
		iv := simkit.Range(c, 1, 5, "interval")
		ih, err := ch.IntervalBlockHashes(&end.Hash, iv)
		var want []*MBlock
		for h := iv; h <= int(end.Height); h += iv {
			want = append(want, ec[h])
		}
		if err != nil || !sameHashes(ih, want) {
			r.Violate("C17", "interval-block-hashes", "", "IntervalBlockHashes(%v,%d) = %d hashes err=%v, want %v", end, iv, len(ih), err, fmtBlocks(want))
		}
		if !end.IsAncestorOf(tip) {
			r.Probe("range-query-on-side-chain-end")
		}
	}
	var unknown chainhash.Hash
	copy(unknown[:], c.Bytes(32, "unknown-end"))
	unknown[31] |= 0x80
	if _, err := ch.HeightToHashRange(0, &unknown, 10); err == nil {
		r.Violate("C17", "height-to-hash-range", "", "HeightToHashRange with an unknown end hash must fail")
	}
	if _, err := ch.IntervalBlockHashes(&unknown, 1); err == nil {
		r.Violate("C17", "interval-block-hashes", "", "IntervalBlockHashes with an unknown end hash must fail")
	}
	_ = fmt.Sprint
}

// restartedSince: validation status of side-chain blocks that were active
// before a restart is persisted, so nothing to exclude; kept as a hook.
func (s *Sim) restartedSince(b *MBlock) bool { return false }

// CheckArith compares the node's proof-of-work / difficulty / subsidy answers
// with the independent arithmetic model on the values of this history (C09).
func (s *Sim) CheckArith() {
	r := s.r
	w := s.w
	ch := s.n.Chain
	tip := s.n.Tip()
	d := &w.Net.Diff
	r.Count("arith_batches", 1)
	// required difficulty of the next block for several candidate timestamps
	for _, t := range []int64{tip.H.ts + 1, tip.H.ts + d.MinDiffTimeS, tip.H.ts + d.MinDiffTimeS + 1, tip.H.ts + d.SpacingS, s.adjNow()} {
		got, err := ch.CalcNextRequiredDifficulty(unixTime(t))
		want := d.nextBits(tip.H, t)
		if err != nil || got != want {
			r.Violate("C09", "next-required-difficulty", "", "CalcNextRequiredDifficulty(t=tip+%d) after %v = %08x err=%v, protocol rules give %08x", t-tip.H.ts, tip, got, err, want)
		}
		if !d.NoRetarget && (tip.Height+1)%d.interval() == 0 {
			r.Probe("difficulty-checked-at-retarget-boundary")
		}
		if want == d.PowLimitBits && d.ReduceMinDiff && tip.H.bits != d.PowLimitBits {
			r.Probe("min-difficulty-rule-applies")
		}
	}
	// compact <-> big, work, hash-to-big, proof of work on everything seen
	for _, b := range w.Blocks {
		bits := b.Msg.Header.Bits
		wantT, neg, _ := compactToBig(bits)
		gotT := blockchain.CompactToBig(bits)
		if neg {
			wantT.Neg(wantT)
		}
		if gotT.Cmp(wantT) != 0 {
			r.Violate("C09", "compact-to-big", "", "CompactToBig(%08x)=%x want %x", bits, gotT, wantT)
		}
		if !neg && wantT.Sign() > 0 {
			if back := blockchain.BigToCompact(gotT); back != bigToCompact(wantT) {
				r.Violate("C09", "big-to-compact", "", "BigToCompact(%x)=%08x want %08x", gotT, back, bigToCompact(wantT))
			}
		}
		if gw := blockchain.CalcWork(bits); gw.Cmp(workOf(bits)) != 0 {
			r.Violate("C09", "calc-work", "", "CalcWork(%08x)=%v want %v", bits, gw, workOf(bits))
		}
		if hb := blockchain.HashToBig(&b.Hash); hb.Cmp(hashToBig(Hash(b.Hash))) != 0 {
			r.Violate("C09", "hash-to-big", "", "HashToBig(%v) mismatch", b.Hash)
		}
		if b.Height > 0 {
			err := blockchain.CheckProofOfWork(btcutilBlock(b), d.PowLimit)
			bad := b.Reason == "pow-hash-above-target"
			if (err != nil) != bad {
				r.Violate("C09", "check-proof-of-work", "", "CheckProofOfWork(%v) err=%v, hash<=target is %v", b, err, !bad)
			}
		}
		// cumulative work strictly increases along every chain of valid-target headers
		if b.Parent != nil && b.Work.Cmp(b.Parent.Work) <= 0 {
			panic("chainsim: model work not increasing")
		}
	}
	// drawn compact values: powers of two, one-byte mantissas, tiny and huge
	// exponents, the sign bit, zero
	for i := 0; i < 6; i++ {
		c := r.C
		exp := uint32(c.Intn(0x23, "ar-exp"))
		if c.Bool(150, "ar-exp-huge") {
			exp = uint32(0x23 + c.Intn(0xdd, "ar-exp-hi")) // beyond 256 bits: overflowing targets
		}
		var mant uint32
		switch simkit.Pick(c, "ar-mant", 3, 3, 2, 1, 1) {
		case 0:
			mant = 1 << uint(c.Intn(23, "ar-bit")) // a power of two
		case 1:
			mant = uint32(c.Intn(0x800000, "ar-mant-any"))
		case 2:
			mant = 1<<uint(c.Intn(23, "ar-bit")) - 1
		case 3:
			mant = 0
		default:
			mant = 0x800000 | uint32(c.Intn(0x800000, "ar-mant-neg")) // sign bit set
		}
		bits := exp<<24 | mant
		wantT, neg, _ := compactToBig(bits)
		if neg {
			wantT.Neg(wantT)
		}
		if gotT := blockchain.CompactToBig(bits); gotT.Cmp(wantT) != 0 {
			r.Violate("C09", "compact-to-big", "", "CompactToBig(%08x)=%x want %x", bits, gotT, wantT)
		}
		if !neg && wantT.Sign() > 0 && exp < 0x23 {
			if back := blockchain.BigToCompact(wantT); back != bigToCompact(wantT) {
				r.Violate("C09", "big-to-compact", "", "BigToCompact(%x)=%08x want %08x", wantT, back, bigToCompact(wantT))
			}
			if again := blockchain.CompactToBig(blockchain.BigToCompact(wantT)); again.Cmp(wantT) != 0 && wantT.BitLen() <= 23 {
				r.Violate("C09", "big-to-compact", "", "CompactToBig(BigToCompact(%x))=%x", wantT, again)
			}
		}
		if gw := blockchain.CalcWork(bits); gw.Cmp(workOf(bits)) != 0 {
			r.Violate("C09", "calc-work", "", "CalcWork(%08x)=%v want %v", bits, gw, workOf(bits))
		}
		r.Probe("arith-drawn-compact")
	}
	// subsidy schedule of this network and the 21M bound on mainnet's schedule
	p := w.Net.Params()
	for h := int32(0); h <= tip.Height+2; h++ {
		if got := blockchain.CalcBlockSubsidy(h, p); got != subsidyAt(h, w.Net.SubsidyInterval) {
			r.Violate("C09", "block-subsidy", "", "CalcBlockSubsidy(%d) with interval %d = %d want %d", h, w.Net.SubsidyInterval, got, subsidyAt(h, w.Net.SubsidyInterval))
		}
	}
	for _, k := range []int32{1, 2, 31, 32, 33, 34, 63, 64, 65, 100} {
		h := k * w.Net.SubsidyInterval
		if got := blockchain.CalcBlockSubsidy(h, p); got != subsidyAt(h, w.Net.SubsidyInterval) {
			r.Violate("C09", "block-subsidy", "", "CalcBlockSubsidy(%d) (halving %d) = %d want %d", h, k, got, subsidyAt(h, w.Net.SubsidyInterval))
		}
	}
}

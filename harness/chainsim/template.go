package chainsim

import (
	"bytes"
	"fmt"
	"time"

	"github.com/btcsuite/btcd/address/v2"
	"github.com/btcsuite/btcd/blockchain"
	"github.com/btcsuite/btcd/btcutil/v2"
	"github.com/btcsuite/btcd/chaincfg/v2"
	"github.com/btcsuite/btcd/chainhash/v2"
	"github.com/btcsuite/btcd/txscript/v2"
	"github.com/btcsuite/btcd/wire/v2"

	"verif/harness/simkit"
)

// sigOpCostModel is the signature-operation cost of one of the harness's own
// transactions by the protocol definition, for the script shapes the world
// generates: legacy sigops (x4) in the transaction's own scripts - one per
// pay-to-pubkey-hash output - plus one per spent version-0 witness key hash
// input when segwit is active.  Pay-to-script-hash(OP_TRUE) redeems no sigops.
func (s *Sim) sigOpCostModel(t *MTx, segwit bool) int64 {
	var legacy, wit int64
	for _, o := range t.Msg.TxOut {
		legacy += s.legacySigOps(o.PkScript)
	}
	for _, r := range t.InRecs {
		if r != nil && r.Kind == KP2WPKH && segwit {
			wit++
		}
	}
	return legacy*4 + wit
}

// legacySigOps counts signature operations of an output script by the legacy
// rule for the shapes the harness generates: pay-to-pubkey-hash has one
// OP_CHECKSIG; a bare script made only of OP_CHECKSIG / OP_CHECKMULTISIG
// opcodes counts 1 / 20 each; everything else the harness builds has none.
func (s *Sim) legacySigOps(pk []byte) int64 {
	if k, _ := s.w.classify(pk); k == KP2PKH {
		return 1
	}
	if len(pk) == 0 {
		return 0
	}
	var n int64
	for _, b := range pk {
		switch b {
		case txscript.OP_CHECKSIG:
			n++
		case txscript.OP_CHECKMULTISIG:
			n += 20
		default:
			return 0
		}
	}
	return n
}

// CheckTemplate generates a block template on the real node and checks every
// clause of C12 on it; then it solves, optionally updates time/extra nonce,
// and feeds the block back.
func (s *Sim) CheckTemplate() {
	r := s.r
	c := r.C
	w := s.w
	tip := s.n.Tip()
	pool := s.n.Pool
	_, known := s.poolInOrder()
	must := known && s.minableNow() && !s.reorgSincePoolEmpty
	mustKey := ""
	if !s.n.Chain.IsCurrent() {
		mustKey = "pool-not-updated-while-not-current"
	}
	var payTo address.Address
	if c.Bool(600, "pay-to") {
		a, err := address.NewAddressPubKeyHash(w.PKH[0], w.params)
		if err != nil {
			panic(err)
		}
		payTo = a
	}
	// On a network with the "no block for a while => minimum difficulty" rule
	// the required bits depend on the template's own time: put the clock just
	// past the window, so that a later step back (clock skew, below) moves the
	// template back into it.
	windowPlay := false
	if d := &w.Net.Diff; !d.NoRetarget && d.ReduceMinDiff && !s.clockSteppedBack && (tip.Height+1)%int32(d.interval()) != 0 &&
		d.nextBits(tip.H, tip.H.ts+1) != d.PowLimitBits && c.Bool(600, "tmpl-min-diff-window") {
		edge := tip.H.ts + d.MinDiffTimeS
		if gap := edge + 1 + int64(c.Intn(30, "tmpl-window-past")) - s.adjNow(); gap > 0 {
			s.Advance(time.Duration(gap) * time.Second)
		}
		windowPlay = s.adjNow() > edge && s.adjNow() > tip.mtp()
		if windowPlay {
			r.Probe("template-just-past-the-min-difficulty-window")
		}
	}
	prePool := s.poolSet()
	tmpl, err := s.n.Gen.NewBlockTemplate(payTo)
	s.ps.templates++
	r.Event("template", "tip=%v pool=%d -> err=%v", tip, len(prePool), err != nil)
	r.Sig("template")
	if err != nil {
		if must {
			r.Violate("C12", "generation-succeeds", mustKey, "NewBlockTemplate failed although every pooled transaction was admitted on the current chain and the tip has not moved backwards: %v", err)
		}
		r.Probe("template-generation-failed-without-precondition")
		return
	}
	if !sameSet(prePool, s.poolSet()) {
		r.Violate("C12", "generation-read-only", "", "NewBlockTemplate changed the pool")
	}
	msg := tmpl.Block
	h := msg.Header
	if h.PrevBlock != tip.Hash || tmpl.Height != tip.Height+1 {
		r.Violate("C12", "template-extends-tip", "", "template builds on %v height %d, tip is %v", h.PrevBlock, tmpl.Height, tip)
	}
	if want := w.Net.Diff.nextBits(tip.H, h.Timestamp.Unix()); h.Bits != want {
		r.Violate("C12", "template-difficulty", "", "template bits %08x, required %08x", h.Bits, want)
	}
	if h.Version != w.Net.nextVersion(tip.H) {
		r.Violate("C12", "template-version", "", "template version %08x, model %08x", uint32(h.Version), uint32(w.Net.nextVersion(tip.H)))
	}
	if len(msg.Transactions) == 0 || len(tmpl.Fees) != len(msg.Transactions) || len(tmpl.SigOpCosts) != len(msg.Transactions) {
		r.Violate("C12", "template-accounting", "", "template has %d transactions, %d fees, %d sigop costs", len(msg.Transactions), len(tmpl.Fees), len(tmpl.SigOpCosts))
	}
	segwit := w.active(tip, chaincfg.DeploymentSegwit)
	// order, membership, per-transaction accounting
	pos := map[chainhash.Hash]int{}
	var totalFees, totalSigOps int64
	hasWit := false
	leaves := make([]Hash, len(msg.Transactions))
	wleaves := make([]Hash, len(msg.Transactions))
	for i, tx := range msg.Transactions {
		leaves[i] = Hash(tx.TxHash())
		if i == 0 {
			continue
		}
		wleaves[i] = Hash(tx.WitnessHash())
		th := tx.TxHash()
		t := w.AllTx[th]
		if t == nil || !pool.IsTransactionInPool(&th) {
			r.Violate("C12", "template-from-pool", "", "template transaction %v is not a pooled transaction", th)
		}
		for _, op := range t.Ins {
			if pool.IsTransactionInPool(&op.Hash) {
				if p, ok := pos[op.Hash]; !ok || p >= i {
					r.Violate("C12", "template-dependency-order", "", "template lists %s at %d before its pooled parent %s", th.String()[:8], i, op.Hash.String()[:8])
				}
			}
		}
		pos[th] = i
		fee, ok := s.feeOf(t)
		if ok && tmpl.Fees[i] != fee {
			r.Violate("C12", "template-fees", "", "template reports fee %d for %s, inputs-outputs is %d", tmpl.Fees[i], th.String()[:8], fee)
		}
		totalFees += fee
		if want := s.sigOpCostModel(t, segwit); tmpl.SigOpCosts[i] != want {
			r.Violate("C12", "template-sigops", "", "template reports sigop cost %d for %s, definition gives %d", tmpl.SigOpCosts[i], th.String()[:8], want)
		}
		totalSigOps += tmpl.SigOpCosts[i]
		if tx.HasWitness() {
			hasWit = true
		}
	}
	if tmpl.Fees[0] != -totalFees {
		r.Violate("C12", "template-fees", "", "coinbase fee entry %d, want -%d", tmpl.Fees[0], totalFees)
	}
	cb := msg.Transactions[0]
	var cbOut int64
	for _, o := range cb.TxOut {
		cbOut += o.Value
	}
	if want := subsidyAt(tmpl.Height, w.Net.SubsidyInterval) + totalFees; cbOut != want {
		r.Violate("C12", "template-coinbase-value", "", "coinbase pays %d, subsidy+fees is %d", cbOut, want)
	}
	var cbSig int64
	for _, o := range cb.TxOut {
		cbSig += 4 * s.legacySigOps(o.PkScript)
	}
	if tmpl.SigOpCosts[0] != cbSig {
		r.Violate("C12", "template-sigops", "", "coinbase sigop cost %d, definition gives %d", tmpl.SigOpCosts[0], cbSig)
	}
	totalSigOps += tmpl.SigOpCosts[0]
	if totalSigOps > 80000 {
		r.Violate("C12", "template-limits", "", "template sigop cost %d exceeds 80000", totalSigOps)
	}
	// weight by definition: 3*stripped + total
	var buf, sbuf bytes.Buffer
	msg.Serialize(&buf)
	msg.SerializeNoWitness(&sbuf)
	weight := 3*sbuf.Len() + buf.Len()
	if weight > 4000000 || uint32(weight) > s.n.cfg.Mining.BlockMaxWeight {
		cbw := 3*cb.SerializeSizeStripped() + cb.SerializeSize()
		r.Violate("C12", "template-limits", "", "template weight %d exceeds the consensus (4000000) or configured (%d) maximum (%d transactions, coinbase weight %d, witness txs %v, coinbase outputs %d)", weight, s.n.cfg.Mining.BlockMaxWeight, len(msg.Transactions), cbw, hasWit, len(cb.TxOut))
	}
	if h.MerkleRoot != chainhash.Hash(merkleRoot(leaves)) {
		r.Violate("C12", "template-merkle-root", "", "template merkle root does not match its transactions")
	}
	// witness commitment
	var commit []byte
	for _, o := range cb.TxOut {
		if len(o.PkScript) >= 38 && bytes.Equal(o.PkScript[:6], []byte{txscript.OP_RETURN, 0x24, 0xaa, 0x21, 0xa9, 0xed}) {
			commit = o.PkScript[6:38]
		}
	}
	if hasWit {
		if commit == nil || len(cb.TxIn[0].Witness) != 1 || len(cb.TxIn[0].Witness[0]) != 32 {
			r.Violate("C12", "template-witness-commitment", "", "template includes witness transactions but the coinbase carries no commitment / nonce")
		}
		root := merkleRoot(wleaves)
		var pre [64]byte
		copy(pre[:32], root[:])
		copy(pre[32:], cb.TxIn[0].Witness[0])
		want := dsha(pre[:])
		if !bytes.Equal(commit, want[:]) || !bytes.Equal(tmpl.WitnessCommitment, want[:]) {
			r.Violate("C12", "template-witness-commitment", "", "witness commitment %x (reported %x), definition gives %x", commit, tmpl.WitnessCommitment, want)
		}
		r.Probe("template-with-witness-commitment")
	}
	if len(msg.Transactions) > 1 {
		r.NonTrivial()
		r.Probe("template-with-transactions")
	}

	// update time / extra nonce at a later clock value, solve, feed back
	if windowPlay && s.n.Tip() == tip && c.Bool(700, "tmpl-clock-back") {
		// clock skew: time samples of peers move the adjusted clock back
		// into the window; the template's bits have to follow its time
		edge := tip.H.ts + w.Net.Diff.MinDiffTimeS
		back := s.adjNow() - edge + int64(c.Intn(40, "tmpl-back-extra"))
		if s.stepClockBack(back) {
			r.Fault("clock_step_back")
			r.Probe("template-time-updated-after-clock-step-back")
		}
		if err := s.n.Gen.UpdateBlockTime(msg); err != nil {
			r.Violate("C12", "update-block-time", "", "UpdateBlockTime: %v", err)
		}
		s.checkUpdatedTime(tip, msg)
	} else if c.Bool(500, "tmpl-advance") {
		wait := int64(simkit.Range(c, 1, 900, "tmpl-wait"))
		if ahead := s.n.Tip().mtp() - s.adjNow(); ahead >= 0 && c.Bool(600, "tmpl-clock-at-mtp") {
			// the chain's median time is ahead of the clock: move the clock
			// to the median time itself (the block must still be later)
			wait = ahead + int64(c.Intn(3, "tmpl-mtp-off")) - 1
			if wait < 0 {
				wait = 0
			}
			r.Probe("template-time-updated-with-clock-at-median-time")
		}
		s.Advance(time.Duration(wait) * time.Second)
		if err := s.n.Gen.UpdateBlockTime(msg); err != nil {
			r.Violate("C12", "update-block-time", "", "UpdateBlockTime: %v", err)
		}
		if s.n.Tip() == tip {
			s.checkUpdatedTime(tip, msg)
		}
		r.Probe("template-time-updated")
	}
	if c.Bool(500, "tmpl-extranonce") {
		if err := s.n.Gen.UpdateExtraNonce(msg, tmpl.Height, uint64(c.Intn(1<<30, "extra-nonce"))+1); err != nil {
			r.Violate("C12", "update-extra-nonce", "", "UpdateExtraNonce: %v", err)
		}
		r.Probe("template-extra-nonce-updated")
	}
	if s.n.Tip() != tip {
		return
	}
	solve(&msg.Header, true)
	// the model must agree that every transaction is spendable on this chain
	for _, tx := range msg.Transactions[1:] {
		_ = tx
	}
	b := w.Adopt(tip, msg)
	isMain, isOrph, perr := s.n.Chain.ProcessBlock(btcutil.NewBlock(msg), blockchain.BFNone)
	r.Event("deliver-template", "%v -> main=%v orphan=%v err=%v", b, isMain, isOrph, perr)
	if perr != nil || !isMain || isOrph {
		r.Violate("C12", "solved-template-accepted", "", "the solved template %v (%d transactions) was not accepted onto the tip it was built for: main=%v orphan=%v err=%v", b, len(msg.Transactions), isMain, isOrph, perr)
	}
	s.delivered[b] = true
	if s.ackCommit == nil {
		s.ackCommit = map[*MBlock]int{}
	}
	s.ackCommit[b] = s.commits()
	s.CheckState("template-block")
	s.CheckPool("template-block")
}

// checkUpdatedTime: after UpdateBlockTime the header carries the later of the
// adjusted clock and one second past the tip's median time, and the bits the
// chain requires of a block with that time.
func (s *Sim) checkUpdatedTime(tip *MBlock, msg *wire.MsgBlock) {
	r := s.r
	d := &s.w.Net.Diff
	now := s.adjNow()
	// the earliest time a block on this tip may carry
	earliest := tip.mtp() + 1
	if d.BIP94 && (tip.Height+1)%d.interval() == 0 && tip.H.ts-600 > earliest {
		earliest = tip.H.ts - 600
		r.Probe("template-time-on-a-bip94-boundary-behind-the-tip")
	}
	ts := msg.Header.Timestamp.Unix()
	r.Event("template-time", "ts=%d bits=%08x", ts, msg.Header.Bits)
	switch {
	case now >= earliest && ts != now:
		r.Violate("C12", "update-block-time", "", "after UpdateBlockTime the template time is %d; the adjusted clock reads %d, which the chain allows (earliest %d)", ts, now, earliest)
	case ts < earliest || ts > now+7200:
		r.Violate("C12", "update-block-time", "", "after UpdateBlockTime the template time is %d; the chain allows %d..%d", ts, earliest, now+7200)
	}
	if bits := d.nextBits(tip.H, ts); msg.Header.Bits != bits {
		r.Violate("C12", "update-block-time", "", "after UpdateBlockTime the template (time %d, %d s after its parent) has bits %08x, the chain requires %08x", ts, ts-tip.H.ts, msg.Header.Bits, bits)
	}
}

// stepClockBack moves the node's adjusted clock back by d seconds the way it
// happens in the field: enough peers report a clock that much behind for the
// median offset to follow.  It reports whether the offset moved.
func (s *Sim) stepClockBack(d int64) bool {
	if d <= 0 {
		return false
	}
	before := int64(s.n.Time.Offset() / time.Second)
	target := before - d
	if target <= -4000 || target >= 4000 {
		return false // beyond what the median-offset rule accepts
	}
	s.clockSteppedBack = true
	for i := 0; i < 60 && int64(s.n.Time.Offset()/time.Second) != target; i++ {
		s.skewPeers++
		s.n.Time.AddTimeSample(fmt.Sprintf("skewed-peer-%d", s.skewPeers), time.Now().Add(time.Duration(target)*time.Second))
	}
	after := int64(s.n.Time.Offset() / time.Second)
	s.r.Event("clock-step-back", "offset %d -> %d (wanted %d)", before, after, target)
	return after < before
}

package chainsim

import (
	"bytes"
	"fmt"

	"github.com/btcsuite/btcd/blockchain"
	"github.com/btcsuite/btcd/database"

	"verif/harness/memdb"
	"verif/harness/simkit"
)

// fixedStore hands out one given memdb (a crash image).
type fixedStore struct{ db *memdb.DB }

func (s *fixedStore) Open() (database.DB, error) { return s.db, nil }
func (s *fixedStore) Destroy()                   {}
func (s *fixedStore) Kind() string               { return "memdb-crash-image" }

// announce is one tip announcement of the uninterrupted run.
type announce struct {
	commit int // number of database commits completed when it was announced
	tip    *MBlock
}

// crashEnumerate takes the finished workload of s (run on memdb) and crashes
// it at EVERY commit prefix: only the first n commits survive.  After each
// crash the node is reopened and R1..R4 of DESIGN §5 C04 are checked; a
// seeded subset additionally crashes during the recovery itself.
func (s *Sim) crashEnumerate() {
	r := s.r
	c := r.C
	ms, ok := s.n.store.(*memStore)
	if !ok {
		return
	}
	src := ms.DB
	K := src.Commits()
	finalTip := s.n.Tip()
	r.FaultEnabled("crash_commit_prefix")
	r.FaultEnabled("crash_during_recovery")
	stride := 1
	if K > 300 {
		stride = K/300 + 1
	}
	off := 0
	if stride > 1 {
		off = c.Intn(stride, "crash-offset")
	}
	r.Meta["commits"] = fmt.Sprint(K)
	for n := off; n <= K; n += stride {
		img := src.CrashPrefix(n)
		r.Fault("crash_commit_prefix")
		r.Count("crash_points_enumerated", 1)
		node := s.reopenImage(img, n, "crash")
		tip := node.Tip()
		recCommits := img.Commits() - n
		if recCommits > 0 {
			r.Probe("recovery-made-commits")
		}
		if tip != s.lastAnnouncedAt(n) {
			r.Probe("recovered-tip-older-than-last-announced")
		}
		// crash during recovery: keep only a strict prefix of the commits the
		// recovery itself made, then recover again.
		if recCommits > 0 && c.Bool(400, "crash-in-recovery") {
			// (j == recCommits: the recovery finished and the process dies
			// before doing anything else - whatever the recovery left must
			// itself be a consistent state)
			j := c.Intn(recCommits+1, "recovery-prefix")
			node.db.Close()
			img2 := img.CrashPrefix(n + j)
			r.Fault("crash_during_recovery")
			r.Count("crash_points_enumerated", 1)
			node = s.reopenImage(img2, n, "crash-during-recovery")
			img = img2
		}
		// R4: feeding all blocks afterwards converges to the uninterrupted result
		if n == K || c.Bool(250, "converge") {
			s.converge(node, finalTip, n)
		}
		node.db.Close()
	}
	r.Sig(fmt.Sprintf("crashK:%d", min(K/20, 10)))
}

// CloneCompare opens a FRESH chain instance (empty UTXO cache) on a clone of
// the database, without disturbing the live node: after a required flush the
// persisted set must equal the in-memory view (C03); without a flush the fresh
// instance must replay from the consistency marker to the tip (the no-fault end
// of C04).
func (s *Sim) CloneCompare(flushFirst bool) {
	r := s.r
	ms, ok := s.n.store.(*memStore)
	if !ok {
		return
	}
	tip := s.n.Tip()
	if flushFirst {
		if err := s.n.Chain.FlushUtxoCache(blockchain.FlushRequired); err != nil {
			r.Violate("C03", "flush", "", "FlushUtxoCache(FlushRequired): %v", err)
		}
	}
	img := ms.DB.Clone()
	node := NewNode(r, s.w, NodeCfg{UtxoCacheMax: s.n.cfg.UtxoCacheMax, Prune: s.n.cfg.Prune}, &fixedStore{img})
	node.Time = s.n.Time
	if err := node.Open(); err != nil {
		r.Violate("C04", "reopen-succeeds", "", "opening a fresh instance on a clone of the live database (flushed=%v): %v", flushFirst, err)
	}
	defer node.db.Close()
	if node.Tip() != tip {
		r.Violate("C03", "persisted-equals-in-memory", "", "fresh instance on a clone of the database is at %v, live node at %v", node.Tip(), tip)
	}
	if m := node.CompareUtxo(node.Chain, tip); m != "" {
		r.Violate("C03", "persisted-equals-in-memory", "", "fresh instance on a clone (flushed=%v) at tip %v: %s", flushFirst, tip, m)
	}
	if m := node.CompareJournal(node.Chain, tip, node.prunedFn()); m != "" {
		r.Violate("C03", "persisted-equals-in-memory", "", "fresh instance on a clone (flushed=%v): %s", flushFirst, m)
	}
	r.Event("clone-compare", "flushed=%v tip=%v", flushFirst, tip)
	r.Sig("clone")
	if flushFirst {
		r.Probe("clone-compare-after-flush")
	} else {
		r.Probe("clone-compare-unflushed")
	}
}

// lastAnnouncedAt returns the last tip announced with at most n commits done.
func (s *Sim) lastAnnouncedAt(n int) *MBlock {
	t := s.w.Blocks[0]
	for _, a := range s.announced {
		if a.commit <= n {
			t = a.tip
		}
	}
	return t
}

// reopenImage opens a node on a crash image and checks R1..R3.
func (s *Sim) reopenImage(img *memdb.DB, n int, what string) *Node {
	r := s.r
	node := NewNode(r, s.w, s.n.cfg, &fixedStore{img})
	node.Time = s.n.Time
	if err := node.Open(); err != nil {
		r.Violate("C04", "reopen-succeeds", "", "%s after commit %d of %d: reopening the database failed: %v", what, n, s.n.store.(*memStore).DB.Commits(), err)
	}
	tip := node.Tip()
	if tip == nil {
		r.Violate("C04", "recovered-tip-previously-active", "", "%s after commit %d: recovered tip %v is not a block of the world", what, n, node.Chain.BestSnapshot().Hash)
	}
	// R1: the recovered tip was announced as active before (its activating
	// commit is among the surviving ones).
	ok := tip.Height == 0
	for _, a := range s.announced {
		if a.tip == tip && a.commit <= n {
			ok = true
		}
	}
	if !ok {
		r.Violate("C04", "recovered-tip-previously-active", "", "%s after commit %d: recovered tip %v had not been made active by then (last announced: %v)", what, n, tip, s.lastAnnouncedAt(n))
	}
	if bad := tip.FirstInvalid(); bad != nil {
		r.Violate("C04", "recovered-tip-previously-active", "", "%s after commit %d: recovered tip %v contains invalid block %v", what, n, tip, bad)
	}
	snap := node.Chain.BestSnapshot()
	if snap.TotalTxns != tip.CumTx || snap.Height != tip.Height {
		r.Violate("C04", "recovered-state-consistent", "", "%s after commit %d: snapshot height/txns %d/%d, chain of %v has %d/%d", what, n, snap.Height, snap.TotalTxns, tip, tip.Height, tip.CumTx)
	}
	// R2: UTXO set == fold of that tip's chain
	if m := node.CompareUtxo(node.Chain, tip); m != "" {
		r.Violate("C04", "recovered-utxo-equals-fold", "", "%s after commit %d of the workload, recovered tip %v: %s", what, n, tip, m)
	}
	if m := node.CompareJournal(node.Chain, tip, node.prunedFn()); m != "" {
		r.Violate("C04", "recovered-utxo-equals-fold", "", "%s after commit %d, tip %v: %s", what, n, tip, m)
	}
	// R3: blocks acknowledged before the crash point are still known
	for _, b := range s.w.Blocks[1:] {
		ac, acked := s.ackCommit[b]
		if !acked || ac > n {
			continue
		}
		have, err := node.Chain.HaveBlock(&b.Hash)
		if err != nil || !have {
			r.Violate("C04", "acked-blocks-known", "", "%s after commit %d: block %v was acknowledged at commit %d but HaveBlock=%v err=%v", what, n, b, ac, have, err)
		}
		if pr := node.prunedFn(); pr == nil || !pr(b.Hash) {
			blk, err := node.Chain.BlockByHash(&b.Hash)
			if err != nil {
				// side-chain blocks are not served by BlockByHash: only judge main chain
				if b.IsAncestorOf(tip) {
					r.Violate("C04", "acked-blocks-known", "", "%s after commit %d: main-chain block %v not fetchable: %v", what, n, b, err)
				}
				continue
			}
			var buf bytes.Buffer
			b.Msg.Serialize(&buf)
			got, _ := blk.Bytes()
			if !bytes.Equal(got, buf.Bytes()) {
				r.Violate("C04", "acked-blocks-known", "", "%s after commit %d: block %v bytes differ", what, n, b)
			}
		}
	}
	r.State("crash n=%d/%d tipd=%d rec=%d", min(n, 50), 0, tip.Height, img.Commits()-n)
	return node
}

// converge re-delivers every block of the world in topological (ID) order to
// the recovered node and compares the result with the uninterrupted run.
func (s *Sim) converge(node *Node, finalTip *MBlock, n int) {
	r := s.r
	sub := &Sim{r: r, w: s.w, n: node, prof: s.prof, delivered: map[*MBlock]bool{}, doubt: map[*MBlock]bool{}, manualInv: map[*MBlock]bool{}, quiet: true,
		preKnown: map[*MBlock]bool{}, sub: true}
	// what the recovered node already knows counts as delivered
	for _, b := range s.w.Blocks[1:] {
		if have, _ := node.Chain.HaveBlock(&b.Hash); have {
			sub.delivered[b] = true
			sub.preKnown[b] = true
		}
	}
	world := append([]*MBlock{}, s.w.Blocks[1:]...)
	for _, b := range world {
		if s.delivered[b] || sub.delivered[b] {
			sub.ensureClock(b)
			sub.Deliver(b)
			if sub.gaveUp {
				r.Probe("convergence-not-judged-on-pruned-node")
				return
			}
		}
	}
	sub.CheckState("converge")
	if sub.stuck != nil {
		// Known finding: a block stored before the crash but not yet connected
		// is never activated by re-delivery (refused as duplicate).  The next
		// block on top of it must bring the node to the right chain.
		x := s.w.Build(finalTip, BlockOpts{NTx: 1})
		sub.ensureClock(x)
		sub.Deliver(x)
		if sub.gaveUp {
			r.Probe("convergence-not-judged-on-pruned-node")
			return
		}
		sub.CheckState("converge-extended")
		if node.Tip() != x {
			r.Violate("C04", "converges-to-uninterrupted-result", "", "crash after commit %d: even after one more block %v on the uninterrupted run's tip %v the node stays at %v", n, x, finalTip, node.Tip())
		}
		if m := node.CompareUtxo(node.Chain, x); m != "" {
			r.Violate("C04", "converges-to-uninterrupted-result", "", "crash after commit %d, extended by %v: %s", n, x, m)
		}
		r.Probe("converged-after-crash-with-one-more-block")
		return
	}
	tip := node.Tip()
	if tip.Work.Cmp(finalTip.Work) != 0 {
		r.Violate("C04", "converges-to-uninterrupted-result", "", "crash after commit %d, then all blocks re-delivered: tip %v work %v, uninterrupted run ended at %v work %v", n, tip, tip.Work, finalTip, finalTip.Work)
	}
	if m := node.CompareUtxo(node.Chain, tip); m != "" {
		r.Violate("C04", "converges-to-uninterrupted-result", "", "crash after commit %d, then all blocks re-delivered, tip %v: %s", n, tip, m)
	}
	r.Probe("converged-after-crash")
}

var _ = simkit.Mix

package chainsim

import (
	"fmt"
	"time"

	"github.com/btcsuite/btcd/database"
	"github.com/btcsuite/btcd/database/ffldb"
	"github.com/btcsuite/btcd/wire/v2"

	"verif/harness/simfs"
	"verif/harness/simkit"
)

// simStore is real ffldb + real goleveldb on the simulated disk (simfs).
type simStore struct {
	fs        *simfs.FS
	net       wire.BitcoinNet
	created   bool
	cacheMax  uint64
	flushSecs uint32
	maxFile   uint32
	db        database.DB
}

const simDBPath = "/simdisk/chain"

func (s *simStore) Open() (database.DB, error) {
	ffldb.VerifDeterministicCursors = true
	ffldb.SetVerifFS(s.fs.FFLDB(simfs.DeterministicLevelDB))
	var db database.DB
	var err error
	if !s.created {
		db, err = database.Create("ffldb", simDBPath, s.net)
		s.created = err == nil
	} else {
		db, err = database.Open("ffldb", simDBPath, s.net)
	}
	if err != nil {
		return nil, err
	}
	ffldb.VerifSetCacheParams(db, s.cacheMax, s.flushSecs)
	ffldb.VerifSetMaxBlockFileSize(db, s.maxFile)
	s.db = db
	return db, nil
}

func (s *simStore) Destroy() {
	if s.db != nil {
		ffldb.VerifForget(s.db)
		s.db = nil
	}
	ffldb.SetVerifFS(nil)
}

func (s *simStore) Kind() string { return "ffldb+goleveldb on simfs" }

// closeAbandoned closes a store whose disk is frozen so that its goroutines
// end; a close that hangs (goleveldb keeps its writer lock after some failed
// flushes) is abandoned after simulated time.
func closeAbandoned(r *simkit.Run, db database.DB, hungCall bool) {
	if hungCall {
		// an abandoned call still holds the store's close lock: Close would
		// wait on a mutex, which the simulated clock cannot time out
		r.Probe("crashed-store-not-closed-after-hung-call")
		ffldb.VerifAbandon(db)
		time.Sleep(time.Second)
		ffldb.VerifForget(db)
		return
	}
	done := make(chan struct{})
	go func() {
		defer func() { recover(); close(done) }()
		db.Close()
	}()
	select {
	case <-done:
	case <-time.After(10 * time.Minute):
		r.Probe("crashed-store-close-hung-abandoned")
	}
	ffldb.VerifForget(db)
}

// abandonable runs f; once the disk is frozen a call that does not return
// within simulated minutes is abandoned (goleveldb keeps its writer lock after
// some failed commits, so the dead "process" can hang in its next write).  It
// reports whether f returned.
func abandonable(r *simkit.Run, fs *simfs.FS, f func()) bool {
	done := make(chan struct{})
	var pv any
	go func() {
		defer func() {
			pv = recover() // re-raised on the run's own goroutine
			close(done)
		}()
		f()
	}()
	waited := 0
	for {
		select {
		case <-done:
			if pv != nil {
				panic(pv)
			}
			return true
		case <-time.After(time.Minute):
			if fs.Frozen() {
				if waited++; waited >= 10 {
					r.Probe("call-on-crashed-store-hung-abandoned")
					return false
				}
			}
		}
	}
}

// runDiskCrash is configuration (B) of DESIGN §5 C04: the node runs on real
// ffldb over the simulated disk; at a seeded I/O call inside a seeded delivery
// the disk crashes (process crash: every completed write survives; power loss:
// per file the durable content plus a seeded prefix of the unsynced writes,
// block files an arbitrary subset and a torn write), the process "restarts" on
// the crash image and R1..R4 are checked.
func runDiskCrash(r *simkit.Run, w *World, cfg NodeCfg) {
	c := r.C
	fs := simfs.New()
	st := &simStore{fs: fs, net: w.Net.Net,
		cacheMax:  []uint64{0, 4000, 100 << 20}[c.Intn(3, "ffldb-cache")],
		flushSecs: []uint32{300, 1, 60}[c.Intn(3, "ffldb-flush-secs")],
		maxFile:   []uint32{2000, 20000, 512 << 20}[c.Intn(3, "ffldb-file-size")]}
	defer func() { ffldb.SetVerifFS(nil); ffldb.VerifReapLeaked() }()
	ffldb.VerifResetCounters()
	mode := simfs.ProcessCrash
	modeName := "crash_process"
	if c.Bool(600, "power-loss") {
		mode, modeName = simfs.PowerLoss, "crash_powerloss"
	}
	r.FaultEnabled(modeName)
	r.Meta["store"] = st.Kind()
	r.Meta["crash"] = modeName
	r.Sig("disk:" + modeName)

	n := NewNode(r, w, cfg, st)
	if err := n.Open(); err != nil {
		panic(fmt.Sprintf("chainsim: opening ffldb on simfs: %v", err))
	}
	s := &Sim{r: r, w: w, n: n, prof: "crash", delivered: map[*MBlock]bool{}, doubt: map[*MBlock]bool{}, manualInv: map[*MBlock]bool{}}
	s.resetHeaders()
	ackFlush := map[*MBlock]uint64{}
	nblocks := simkit.Range(c, 4, 30, "disk-blocks")
	crashAt := c.Intn(nblocks, "crash-at-block")
	armed := false
	frozen := false
	var inflight *MBlock
	hung := false
	// bursts of blocks, or the steady state of a synced node in which the
	// store's flush interval has elapsed before most blocks
	pace := []int{150, 500, 950}[c.Intn(3, "pace")]
	for i := 0; i < nblocks && !frozen; i++ {
		parent := s.pickParent()
		b := w.Build(parent, BlockOpts{NTx: c.Intn(4, "ntx")})
		s.ensureClock(b)
		if c.Bool(pace, "advance") {
			s.Advance([]time.Duration{time.Second, 2 * time.Minute, 6 * time.Minute}[c.Intn(3, "adv")])
		}
		if i == crashAt {
			target := fs.IOCount() + c.Intn(60, "crash-after-io")
			torn := c.Intn(64, "torn-bytes")
			fs.SetInjector(func(p simfs.IOPoint) simfs.Decision {
				if p.Index == target {
					return simfs.Decision{Action: simfs.ActCrash, N: torn}
				}
				return simfs.Decision{}
			})
			armed = true
		}
		// deliver (without the judging of Deliver: an internal error is
		// expected once the disk is frozen)
		var isOrph bool
		var err error
		returned := abandonable(r, fs, func() {
			defer func() {
				// once the disk is frozen the "process" is dead: whatever
				// the abandoned call still does (including a panic on a read
				// that fails) is an artefact of the simulation
				if p := recover(); p != nil {
					if !fs.Frozen() {
						panic(p)
					}
					r.Probe("panic-on-frozen-disk-ignored")
					err = fmt.Errorf("panic on frozen disk: %v", p)
				}
			}()
			_, isOrph, err = n.Chain.ProcessBlock(btcutilBlock(b), 0)
		})
		if !returned {
			hung = true
			err = fmt.Errorf("call abandoned on the frozen disk")
		}
		if fs.Frozen() {
			frozen = true
			inflight = b
			r.Event("disk-crash", "during delivery of %v (io %d) err=%v", b, fs.IOCount(), err != nil)
			r.Fault(modeName)
			break
		}
		if err != nil {
			r.Violate("C01", "valid-accepted", "", "valid block %v rejected on ffldb/simfs: %v", b, err)
		}
		s.delivered[b] = true
		if !isOrph {
			ackFlush[b] = ffldb.VerifFlushCount(st.db)
		}
		r.Event("deliver", "%v -> tip %v", b, n.Tip())
		s.CheckState("deliver")
		if c.Bool(120, "utxo-flush") {
			hung = !abandonable(r, fs, func() {
				defer func() {
					if p := recover(); p != nil && !fs.Frozen() {
						panic(p)
					}
				}()
				n.Chain.FlushUtxoCache(0)
			})
			if fs.Frozen() {
				frozen = true
				r.Event("disk-crash", "during FlushUtxoCache")
				r.Fault(modeName)
			}
		}
	}
	_ = armed
	if !frozen {
		// the armed I/O point was never reached: crash now, between operations
		fs.Freeze()
		r.Event("disk-crash", "between operations (io %d)", fs.IOCount())
		r.Fault(modeName)
	}
	flushesDone := ffldb.VerifFlushCount(st.db)
	everActive := n.EverActive
	finalModelTip := n.top()
	closeAbandoned(r, st.db, hung)
	n.Chain = nil

	pick := func(k int, tag string) int { return c.Intn(k, "img-"+tag) }
	img, rep := fs.CrashImage(mode, pick, ".fdb")
	r.Event("crash-image", "lost=%d kept=%d torn=%d subsetFiles=%d", rep.LostOps, rep.KeptOps, rep.TornWrites, rep.SubsetFiles)
	if rep.LostOps > 0 {
		r.Probe("power-loss-dropped-unsynced-writes")
	}
	if rep.TornWrites > 0 {
		r.Probe("power-loss-torn-write")
	}
	st2 := &simStore{fs: img, net: w.Net.Net, created: true, cacheMax: st.cacheMax, flushSecs: st.flushSecs, maxFile: st.maxFile}
	n2 := NewNode(r, w, cfg, st2)
	n2.Time = n.Time
	if err := n2.Open(); err != nil {
		r.Violate("C04", "reopen-succeeds", "", "%s: reopening ffldb after the crash failed: %v (image: lost %d unsynced ops, %d torn)", modeName, err, rep.LostOps, rep.TornWrites)
	}
	defer func() {
		if n2.db != nil {
			n2.db.Close()
			ffldb.VerifForget(n2.db)
		}
	}()
	tip := n2.Tip()
	// the block in flight at the crash may already have been committed (and
	// even made durable) without having been announced yet
	inflightOK := tip != nil && inflight != nil && tip.IsAncestorOf(inflight)
	if tip == nil || (!everActive[tip] && !inflightOK) {
		r.Violate("C04", "recovered-tip-previously-active", "", "%s: recovered tip %v was never announced as active (last announced %v)", modeName, tip, finalModelTip)
	}
	if m := n2.CompareUtxo(n2.Chain, tip); m != "" {
		r.Violate("C04", "recovered-utxo-equals-fold", "", "%s: recovered tip %v: %s", modeName, tip, m)
	}
	if m := n2.CompareJournal(n2.Chain, tip, nil); m != "" {
		r.Violate("C04", "recovered-utxo-equals-fold", "", "%s: recovered tip %v: %s", modeName, tip, m)
	}
	for _, b := range w.Blocks[1:] {
		f, ok := ackFlush[b]
		if !ok || f >= flushesDone {
			continue // not acknowledged before the last completed flush
		}
		if have, err := n2.Chain.HaveBlock(&b.Hash); err != nil || !have {
			r.Violate("C04", "acked-blocks-known", "", "%s: block %v was acknowledged before flush %d (of %d) but HaveBlock=%v err=%v after the crash", modeName, b, f+1, flushesDone, have, err)
		}
	}
	if tip != finalModelTip {
		r.Probe("recovered-tip-older-than-last-announced")
	}
	r.Count("crash_points_enumerated", 1)
	r.State("disk tipd=%d lost=%d", tip.Height, min(rep.LostOps, 20))
	// R4: convergence to the best chain of everything that was handed over
	if inflight != nil {
		if have, _ := n2.Chain.HaveBlock(&inflight.Hash); have {
			s.delivered[inflight] = true
		}
	}
	best := w.Blocks[0]
	for _, b := range w.Blocks[1:] {
		if s.delivered[b] && b.ChainValid() && b.Work.Cmp(best.Work) > 0 {
			best = b
		}
	}
	s2 := &Sim{r: r, w: w, n: n2, prof: "crash", delivered: s.delivered}
	s2.converge(n2, best, -1)
	r.NonTrivial()
}

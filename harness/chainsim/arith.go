// Package chainsim simulates one full btcd node (blockchain + mempool +
// mining + the netsync notification handler) in one process against an
// independent reference world.  This file: the independent arithmetic model
// (hashing, merkle, compact targets, work, retarget, subsidy, median time).
// Nothing here calls into /repo/blockchain.
package chainsim

import (
	"crypto/sha256"
	"math/big"
	"sort"
)

type Hash = [32]byte

func dsha(b []byte) Hash {
	a := sha256.Sum256(b)
	return sha256.Sum256(a[:])
}

// merkleRoot is Bitcoin's merkle tree: pairs hashed, last duplicated on odd.
func merkleRoot(leaves []Hash) Hash {
	if len(leaves) == 0 {
		return Hash{}
	}
	cur := append([]Hash{}, leaves...)
	for len(cur) > 1 {
		if len(cur)%2 == 1 {
			cur = append(cur, cur[len(cur)-1])
		}
		next := make([]Hash, 0, len(cur)/2)
		for i := 0; i < len(cur); i += 2 {
			var buf [64]byte
			copy(buf[:32], cur[i][:])
			copy(buf[32:], cur[i+1][:])
			next = append(next, dsha(buf[:]))
		}
		cur = next
	}
	return cur[0]
}

// compactToBig converts the 32-bit compact target; neg reports the sign bit
// with a non-zero mantissa, overflow a value that does not fit 256 bits.
func compactToBig(bits uint32) (t *big.Int, neg bool, overflow bool) {
	exp := bits >> 24
	mant := bits & 0x007fffff
	t = new(big.Int)
	if exp <= 3 {
		mant >>= 8 * (3 - exp)
		t.SetUint64(uint64(mant))
	} else {
		t.SetUint64(uint64(mant))
		t.Lsh(t, uint(8*(exp-3)))
	}
	neg = mant != 0 && bits&0x00800000 != 0
	overflow = mant != 0 && (exp > 34 || (mant > 0xff && exp > 33) || (mant > 0xffff && exp > 32))
	return
}

func bigToCompact(n *big.Int) uint32 {
	if n.Sign() == 0 {
		return 0
	}
	size := uint32((n.BitLen() + 7) / 8)
	var mant uint32
	if size <= 3 {
		mant = uint32(n.Uint64()) << (8 * (3 - size))
	} else {
		t := new(big.Int).Rsh(n, uint(8*(size-3)))
		mant = uint32(t.Uint64())
	}
	if mant&0x00800000 != 0 {
		mant >>= 8
		size++
	}
	return size<<24 | mant
}

var two256 = new(big.Int).Lsh(big.NewInt(1), 256)

// workOf is 2^256 / (target+1); zero for non-positive targets.
func workOf(bits uint32) *big.Int {
	t, neg, _ := compactToBig(bits)
	if neg || t.Sign() <= 0 {
		return big.NewInt(0)
	}
	d := new(big.Int).Add(t, big.NewInt(1))
	return new(big.Int).Div(two256, d)
}

// hashToBig interprets a block hash (internal byte order) as a little-endian
// 256-bit number.
func hashToBig(h Hash) *big.Int {
	var be [32]byte
	for i := 0; i < 32; i++ {
		be[i] = h[31-i]
	}
	return new(big.Int).SetBytes(be[:])
}

// subsidyAt is 50 BTC halved every interval blocks, zero from 64 halvings on.
func subsidyAt(height int32, interval int32) int64 {
	if interval == 0 {
		return 50 * 1e8
	}
	halvings := uint(height / interval)
	if halvings >= 64 {
		return 0
	}
	return int64(50*1e8) >> halvings
}

// medianOf returns the element at index n/2 of the sorted slice (Bitcoin's
// "median" of up to 11 timestamps).
func medianOf(ts []int64) int64 {
	s := append([]int64{}, ts...)
	sort.Slice(s, func(i, j int) bool { return s[i] < s[j] })
	return s[len(s)/2]
}

// DiffCfg are the difficulty parameters of a network.
type DiffCfg struct {
	NoRetarget    bool
	PowLimit      *big.Int
	PowLimitBits  uint32
	TimespanS     int64 // target timespan, seconds
	SpacingS      int64 // target time per block, seconds
	Factor        int64
	ReduceMinDiff bool
	MinDiffTimeS  int64
	BIP94         bool
}

func (d *DiffCfg) interval() int32 { return int32(d.TimespanS / d.SpacingS) }

// hdr is the model's view of a header: what the arithmetic needs.
type hdr struct {
	parent  *hdr
	height  int32
	ts      int64
	bits    uint32
	version int32
}

func (h *hdr) ancestor(height int32) *hdr {
	n := h
	for n != nil && n.height > height {
		n = n.parent
	}
	if n == nil || n.height != height {
		return nil
	}
	return n
}

// mtp is the median time past of h (median of h and up to 10 ancestors).
func (h *hdr) mtp() int64 {
	var ts []int64
	for n, i := h, 0; n != nil && i < 11; n, i = n.parent, i+1 {
		ts = append(ts, n.ts)
	}
	return medianOf(ts)
}

// nextBits is the required compact target of the block after last, mined at
// time newTs, by the protocol rules (Bitcoin Core GetNextWorkRequired with the
// testnet min-difficulty and BIP94 variants).
func (d *DiffCfg) nextBits(last *hdr, newTs int64) uint32 {
	if d.NoRetarget || last == nil {
		return d.PowLimitBits
	}
	iv := d.interval()
	if (last.height+1)%iv != 0 {
		if d.ReduceMinDiff {
			if newTs > last.ts+d.MinDiffTimeS {
				return d.PowLimitBits
			}
			n := last
			for n.parent != nil && n.height%iv != 0 && n.bits == d.PowLimitBits {
				n = n.parent
			}
			return n.bits
		}
		return last.bits
	}
	first := last.ancestor(last.height - (iv - 1))
	span := last.ts - first.ts
	lo, hi := d.TimespanS/d.Factor, d.TimespanS*d.Factor
	if span < lo {
		span = lo
	}
	if span > hi {
		span = hi
	}
	oldBits := last.bits
	if d.BIP94 {
		oldBits = first.bits
	}
	old, _, _ := compactToBig(oldBits)
	nt := new(big.Int).Mul(old, big.NewInt(span))
	nt.Div(nt, big.NewInt(d.TimespanS))
	if nt.Cmp(d.PowLimit) > 0 {
		nt.Set(d.PowLimit)
	}
	return bigToCompact(nt)
}

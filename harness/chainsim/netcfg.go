package chainsim

import (
	"math"
	"math/big"
	"time"

	"github.com/btcsuite/btcd/chaincfg/v2"
	"github.com/btcsuite/btcd/chainhash/v2"
	"github.com/btcsuite/btcd/wire/v2"
)

// BIP9 states of the independent model.
type DepState int

const (
	DepDefined DepState = iota
	DepStarted
	DepLockedIn
	DepActive
	DepFailed
)

func (s DepState) String() string {
	return [...]string{"defined", "started", "lockedin", "active", "failed"}[s]
}

// DepCfg is one deployment definition.
type DepCfg struct {
	Bit          uint8
	Start, End   int64 // unix seconds; 0 = always started / never ends
	Custom       uint32
	MinAct       uint32
	AlwaysActive uint32 // 0 = never forced
}

func (d *DepCfg) speedy() bool { return d.MinAct != 0 || d.Custom != 0 }

// NetCfg is a synthetic network parameter set plus the model's own view of it.
type NetCfg struct {
	Name            string
	Net             wire.BitcoinNet
	Diff            DiffCfg
	GenesisTs       int64
	Maturity        int32
	BIP34           int32
	BIP65           int32
	BIP66           int32
	SubsidyInterval int32
	Window          uint32
	Threshold       uint32
	Deps            [chaincfg.DefinedDeployments]DepCfg
	Genesis         *wire.MsgBlock
	GenesisHash     chainhash.Hash
}

// Params builds a fresh chaincfg.Params (fresh deployment starters/enders:
// blockchain.New mutates them, so they must not be shared between instances).
func (n *NetCfg) Params() *chaincfg.Params {
	p := chaincfg.RegressionNetParams // struct copy
	p.Name = n.Name
	p.Net = n.Net
	p.GenesisBlock = n.Genesis
	h := n.GenesisHash
	p.GenesisHash = &h
	p.PowLimit = new(big.Int).Set(n.Diff.PowLimit)
	p.PowLimitBits = n.Diff.PowLimitBits
	p.PoWNoRetargeting = n.Diff.NoRetarget
	p.CoinbaseMaturity = uint16(n.Maturity)
	p.BIP0034Height = n.BIP34
	p.BIP0065Height = n.BIP65
	p.BIP0066Height = n.BIP66
	p.SubsidyReductionInterval = n.SubsidyInterval
	p.TargetTimespan = time.Duration(n.Diff.TimespanS) * time.Second
	p.TargetTimePerBlock = time.Duration(n.Diff.SpacingS) * time.Second
	p.RetargetAdjustmentFactor = n.Diff.Factor
	p.ReduceMinDifficulty = n.Diff.ReduceMinDiff
	p.MinDiffReductionTime = time.Duration(n.Diff.MinDiffTimeS) * time.Second
	p.EnforceBIP94 = n.Diff.BIP94
	p.Checkpoints = nil
	p.RuleChangeActivationThreshold = n.Threshold
	p.MinerConfirmationWindow = n.Window
	for i := range n.Deps {
		d := n.Deps[i]
		var st, en time.Time
		if d.Start != 0 {
			st = time.Unix(d.Start, 0)
		}
		if d.End != 0 {
			en = time.Unix(d.End, 0)
		}
		p.Deployments[i] = chaincfg.ConsensusDeployment{
			BitNumber:                 d.Bit,
			MinActivationHeight:       d.MinAct,
			CustomActivationThreshold: d.Custom,
			AlwaysActiveHeight:        d.AlwaysActive,
			DeploymentStarter:         chaincfg.NewMedianTimeDeploymentStarter(st),
			DeploymentEnder:           chaincfg.NewMedianTimeDeploymentEnder(en),
		}
	}
	return &p
}

// depState is the BIP9 (+ speedy trial, min activation height, always-active
// height) state that applies to the block AFTER prev, computed from genesis
// with no cache.
func (n *NetCfg) depState(prev *hdr, id int) DepState {
	d := &n.Deps[id]
	if prev == nil {
		return DepDefined
	}
	always := d.AlwaysActive
	if always == 0 {
		always = math.MaxUint32
	}
	if uint32(prev.height)+1 >= always {
		return DepActive
	}
	w := int32(n.Window)
	if prev.height+1 < w {
		return DepDefined
	}
	// boundary nodes: heights k*w-1 for k>=1 up to the period of prev+1.
	last := prev.height - (prev.height+1)%w
	var bounds []*hdr
	for b := prev.ancestor(last); b != nil && b.height >= w-1; b = b.ancestor(b.height - w) {
		bounds = append(bounds, b)
		if b.height-w < 0 {
			break
		}
	}
	thr := n.Threshold
	if d.Custom != 0 {
		thr = d.Custom
	}
	state := DepDefined
	for i := len(bounds) - 1; i >= 0; i-- {
		p := bounds[i]
		m := p.mtp()
		started := d.Start == 0 || m >= d.Start
		ended := d.End != 0 && m >= d.End
		switch state {
		case DepDefined:
			if !d.speedy() && ended {
				state = DepFailed
			} else if started {
				state = DepStarted
			}
		case DepStarted:
			if !d.speedy() && ended {
				state = DepFailed
				break
			}
			var count uint32
			c := p
			for j := int32(0); j < w && c != nil; j++ {
				v := uint32(c.version)
				if v&0xe0000000 == 0x20000000 && v&(1<<d.Bit) != 0 {
					count++
				}
				c = c.parent
			}
			if count >= thr {
				state = DepLockedIn
			} else if d.speedy() && ended {
				state = DepFailed
			}
		case DepLockedIn:
			if d.MinAct == 0 || uint32(p.height)+1 >= d.MinAct {
				state = DepActive
			}
		}
	}
	return state
}

// nextVersion is the version a miner should propose after prev: top bits 001
// plus the bit of every deployment that is Started or LockedIn.
func (n *NetCfg) nextVersion(prev *hdr) int32 {
	v := uint32(0x20000000)
	for id := range n.Deps {
		s := n.depState(prev, id)
		if s == DepStarted || s == DepLockedIn {
			v |= 1 << n.Deps[id].Bit
		}
	}
	return int32(v)
}

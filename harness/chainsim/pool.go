package chainsim

import (
	"fmt"
	"math/big"
	"sort"

	"github.com/btcsuite/btcd/btcutil/v2"
	"github.com/btcsuite/btcd/chaincfg/v2"
	"github.com/btcsuite/btcd/chainhash/v2"
	"github.com/btcsuite/btcd/mempool"
	"github.com/btcsuite/btcd/txscript/v2"
	"github.com/btcsuite/btcd/wire/v2"

	"verif/harness/simkit"
)

// poolState is the harness side of the mempool simulation: every transaction
// the harness ever built for the pool (so amounts are known independently of
// the node) and bookkeeping for the "height/MTP did not move backwards"
// precondition.
type poolState struct {
	unsent []*MTx // built, not yet submitted (parents of orphans)
	// first sight in the pool: chain height and MTP at that moment
	seenHeight map[chainhash.Hash]int32
	seenMTP    map[chainhash.Hash]int64
	accepted   int
	rejected   int
	replaced   int
	orphaned   int
	minedFrom  int
	templates  int
}

func newPoolState() *poolState {
	return &poolState{seenHeight: map[chainhash.Hash]int32{}, seenMTP: map[chainhash.Hash]int64{}}
}

func vsize(tx *wire.MsgTx) int64 {
	w := int64(tx.SerializeSizeStripped())*3 + int64(tx.SerializeSize())
	return (w + 3) / 4
}

// poolSet returns the hashes of the pool in deterministic order.
func (s *Sim) poolSet() []chainhash.Hash {
	var out []chainhash.Hash
	for _, h := range s.n.Pool.TxHashes() {
		out = append(out, *h)
	}
	sort.Slice(out, func(i, j int) bool { return string(out[i][:]) < string(out[j][:]) })
	return out
}

// orphanSet returns the known transactions that are held as orphans.
func (s *Sim) orphanSet() []chainhash.Hash {
	var out []chainhash.Hash
	for _, t := range s.w.AllTxOrder {
		if s.n.Pool.IsOrphanInPool(&t.Hash) {
			out = append(out, t.Hash)
		}
	}
	return out
}

func sameSet(a, b []chainhash.Hash) bool {
	if len(a) != len(b) {
		return false
	}
	m := map[chainhash.Hash]bool{}
	for _, h := range a {
		m[h] = true
	}
	for _, h := range b {
		if !m[h] {
			return false
		}
	}
	return true
}

// outRec returns what the harness knows about an outpoint: an output of the
// active chain (model fold), or of a pool-side transaction.
func (s *Sim) outRec(tip *MBlock, op wire.OutPoint) (*utxoRec, bool) {
	if r, ok := tip.View[op]; ok {
		return r, true
	}
	if t, ok := s.w.AllTx[op.Hash]; ok && int(op.Index) < len(t.Msg.TxOut) {
		o := t.Msg.TxOut[op.Index]
		rec := &utxoRec{Value: o.Value, PkScript: o.PkScript, Height: tip.Height + 1}
		rec.Kind, rec.Key = s.w.classify(o.PkScript)
		return rec, false
	}
	return nil, false
}

// buildPoolTx creates one transaction for the pool.  kind:
// 0 fresh (spends unspent chain outputs nobody in the pool spends),
// 1 chained (spends outputs of pooled transactions),
// 2 conflict (spends something a pooled transaction already spends),
// 3 orphan (spends outputs of a transaction built now but not submitted).
func (s *Sim) buildPoolTx(kind int) *MTx {
	c := s.r.C
	w := s.w
	tip := s.n.Tip()
	pool := s.n.Pool
	segwit := w.active(tip, chaincfg.DeploymentSegwit)
	next := tip.Height + 1
	usable := func(rec *utxoRec) bool {
		if rec == nil || rec.Kind == KOpReturn || (rec.Kind == KP2WPKH && !segwit) || rec.Value <= 0 {
			return false
		}
		return !rec.Coinbase || next-rec.Height >= w.Net.Maturity
	}
	var cands []wire.OutPoint
	recs := map[wire.OutPoint]*utxoRec{}
	switch kind {
	case 0, 2:
		for _, op := range w.UniOrder {
			rec, ok := tip.View[op]
			if !ok || !usable(rec) {
				continue
			}
			spent := pool.CheckSpend(op) != nil
			if (kind == 0 && !spent) || (kind == 2 && spent) {
				cands = append(cands, op)
				recs[op] = rec
			}
		}
		if kind == 2 {
			// also outputs of pooled transactions that another pooled tx spends
			for _, t := range s.w.AllTxOrder {
				if !pool.IsTransactionInPool(&t.Hash) {
					continue
				}
				for i := range t.Msg.TxOut {
					op := wire.OutPoint{Hash: t.Hash, Index: uint32(i)}
					rec, _ := s.outRec(tip, op)
					if usable(rec) && pool.CheckSpend(op) != nil {
						cands = append(cands, op)
						recs[op] = rec
					}
				}
			}
		}
	case 1:
		for _, t := range s.w.AllTxOrder {
			if !pool.IsTransactionInPool(&t.Hash) {
				continue
			}
			for i := range t.Msg.TxOut {
				op := wire.OutPoint{Hash: t.Hash, Index: uint32(i)}
				rec, _ := s.outRec(tip, op)
				if usable(rec) && pool.CheckSpend(op) == nil {
					cands = append(cands, op)
					recs[op] = rec
				}
			}
		}
	case 3:
		parent := s.buildPoolTx(0)
		if parent == nil {
			return nil
		}
		s.ps.unsent = append(s.ps.unsent, parent)
		for i := range parent.Msg.TxOut {
			op := wire.OutPoint{Hash: parent.Hash, Index: uint32(i)}
			rec, _ := s.outRec(tip, op)
			if usable(rec) {
				cands = append(cands, op)
				recs[op] = rec
			}
		}
	}
	if s.preferWitness {
		// only witness-program outputs: the transaction carries witness data
		var wc []wire.OutPoint
		for _, op := range cands {
			if recs[op].Kind == KP2WPKH {
				wc = append(wc, op)
			}
		}
		cands = wc
	}
	if len(cands) == 0 {
		return nil
	}
	nin := simkit.Range(c, 1, 2, "ptx-nin")
	p := &txPlan{Version: int32(simkit.Range(c, 1, 2, "ptx-ver"))}
	var total int64
	used := map[wire.OutPoint]bool{}
	for i := 0; i < nin; i++ {
		op := cands[c.Intn(len(cands), "ptx-in")]
		if used[op] {
			continue
		}
		used[op] = true
		seq := uint32(0xffffffff)
		switch simkit.Pick(c, "ptx-seq", 5, 4, 1) {
		case 1:
			seq = 0xfffffffd // signals replaceability, BIP68 disabled (bit 31)
		case 2:
			seq = 0xfffffffe
		}
		if kind == 1 && c.Bool(120, "ptx-relative-lock") {
			// a one-block relative lock on an output that is not confirmed
			// yet: cannot be in the next block, so the pool must not hold it
			// as minable
			seq = 1
			p.Version = 2
			s.r.Probe("pool-tx-with-relative-lock-on-pooled-parent")
		}
		p.Ins = append(p.Ins, planIn{Op: op, Rec: recs[op], Seq: seq})
		total += recs[op].Value
	}
	// fee: free, below the relay minimum, or comfortable; conflicts bid higher
	minRelay := int64(s.n.cfg.Pool.MinRelayTxFee)
	var fee int64
	switch simkit.Pick(c, "ptx-fee", 1, 1, 6, 2) {
	case 0:
		fee = 0
	case 1:
		fee = minRelay / 20
	case 2:
		fee = minRelay/2 + int64(c.Intn(3000, "ptx-fee-amt"))
	case 3:
		fee = 5000 + int64(c.Intn(50000, "ptx-fee-big"))
	}
	if fee > total/2 {
		fee = total / 2
	}
	// outputs
	nout := simkit.Range(c, 1, 3, "ptx-nout")
	left := total - fee
	for i := 0; i < nout; i++ {
		v := left
		if i < nout-1 {
			v = left / int64(nout-i)
		}
		left -= v
		kind := simkit.Pick(c, "ptx-out-kind", 4, 3, 3, 1)
		if kind == KP2WPKH && !segwit {
			kind = KP2PKH
		}
		p.Outs = append(p.Outs, &wire.TxOut{Value: v, PkScript: w.script(kind, c.Intn(len(w.Keys), "ptx-out-key"))})
	}
	if s.heavySigops && total-fee > 2000 {
		// a transaction at (or just below) the per-transaction sigop cost
		// maximum: one bare output of 248..250 OP_CHECKMULTISIG (20 legacy
		// sigops each, x4 cost), the rest to an anyone-can-spend output
		k := 250 - simkit.Pick(c, "heavy-k", 7, 2, 1)
		if fee < 2000 {
			fee = 2000 // make sure the relay policy is not what keeps it out
		}
		pk := make([]byte, k)
		for i := range pk {
			pk[i] = txscript.OP_CHECKMULTISIG
		}
		p.Outs = []*wire.TxOut{{Value: 600, PkScript: pk}, {Value: total - fee - 600, PkScript: w.script(KTrue, 0)}}
		s.r.Probe("heavy-sigop-tx-built")
	}
	// lock time at the boundary of finality for the next block
	switch simkit.Pick(c, "ptx-lock", 8, 1, 1, 1, 1, 1) {
	case 1:
		p.Lock = uint32(next) - 1 // final for the next block
		p.Ins[0].Seq = 0xfffffffe
	case 2:
		p.Lock = uint32(next) // not yet final
		p.Ins[0].Seq = 0xfffffffe
	case 3, 4, 5:
		// a time lock one second before, at, one second after the median
		// time of the tip (the time the next block's locks are judged by once
		// BIP113 is active)
		p.Lock = uint32(s.n.Tip().mtp() + int64(simkit.Pick(c, "ptx-lock-mtp", 1, 1, 1)) - 1)
		p.Ins[0].Seq = 0xfffffffe
		s.r.Probe("pool-tx-time-locked-at-the-median-time-boundary")
	}
	t := w.makeTx(p)
	t.Fee = fee
	s.w.addTx(t)
	return t
}

// buildTargetedReplacement crafts a replacement for a pooled, replaceable
// transaction that has pooled descendants: its absolute fee sits at the
// boundary "fees of everything evicted + relay fee" (+/- a little) and its
// size is padded with outputs so that its fee RATE falls anywhere between the
// rates of the evicted transactions.
func (s *Sim) buildTargetedReplacement() *MTx {
	c := s.r.C
	w := s.w
	tip := s.n.Tip()
	pool := s.n.Pool
	pre := s.poolSet()
	var victims []*MTx
	for _, h := range pre {
		t := w.AllTx[h]
		if t == nil || len(t.Ins) == 0 {
			continue
		}
		if _, ok := tip.View[t.Ins[0]]; !ok {
			continue // keep it simple: the contested input is a chain output
		}
		if len(s.poolDescendants(pre, map[chainhash.Hash]bool{h: true})) >= 2 || c.Bool(200, "victim-without-child") {
			victims = append(victims, t)
		}
	}
	if len(victims) == 0 {
		return nil
	}
	v := victims[c.Intn(len(victims), "victim")]
	ev := s.poolDescendants(pre, map[chainhash.Hash]bool{v.Hash: true})
	var sum int64
	for h := range ev {
		f, ok := s.feeOf(w.AllTx[h])
		if !ok {
			return nil
		}
		sum += f
	}
	rec := tip.View[v.Ins[0]]
	if rec == nil || pool.CheckSpend(v.Ins[0]) == nil {
		return nil
	}
	p := &txPlan{Version: 2, Ins: []planIn{{Op: v.Ins[0], Rec: rec, Seq: 0xfffffffd}}}
	nout := simkit.Range(c, 1, 60, "repl-outs")
	// approximate size to place the absolute fee at the boundary
	approx := int64(60 + 34*nout + 110)
	relay := approx * int64(s.n.cfg.Pool.MinRelayTxFee) / 1000
	fee := sum + relay + int64(c.Intn(2001, "repl-delta")) - 1000
	if fee < 0 {
		fee = 0
	}
	if fee >= rec.Value {
		return nil
	}
	left := rec.Value - fee
	for i := 0; i < nout; i++ {
		val := left / int64(nout-i)
		left -= val
		p.Outs = append(p.Outs, &wire.TxOut{Value: val, PkScript: w.script(KP2PKH, c.Intn(len(w.Keys), "repl-key"))})
	}
	t := w.makeTx(p)
	if c.Bool(350, "repl-exact") {
		// the absolute-fee rule exactly at its boundary: evicted fees plus
		// the relay fee for the replacement's own virtual size, or 1 less
		want := sum + vsize(t.Msg)*int64(s.n.cfg.Pool.MinRelayTxFee)/1000 - int64(c.Intn(2, "repl-exact-off"))
		if d := fee - want; want >= 0 && p.Outs[0].Value+d > 0 {
			p.Outs[0].Value += d
			fee = want
			t = w.makeTx(p)
			s.r.Probe("targeted-replacement-at-fee-boundary")
		}
	}
	t.Fee = fee
	w.addTx(t)
	s.r.Probe("targeted-replacement-built")
	return t
}

// feeOf recomputes a transaction's fee from the harness's own amounts.
func (s *Sim) feeOf(t *MTx) (int64, bool) {
	var in int64
	for _, r := range t.InRecs {
		if r == nil {
			return 0, false
		}
		in += r.Value
	}
	var out int64
	for _, o := range t.Msg.TxOut {
		out += o.Value
	}
	return in - out, true
}

// descendants of the given set within the pool (model: transitive spenders).
func (s *Sim) poolDescendants(pre []chainhash.Hash, roots map[chainhash.Hash]bool) map[chainhash.Hash]bool {
	out := map[chainhash.Hash]bool{}
	for h := range roots {
		out[h] = true
	}
	for changed := true; changed; {
		changed = false
		for _, h := range pre {
			if out[h] {
				continue
			}
			t := s.w.AllTx[h]
			if t == nil {
				continue
			}
			for _, op := range t.Ins {
				if out[op.Hash] {
					out[h] = true
					changed = true
					break
				}
			}
		}
	}
	return out
}

// Submit hands a transaction to the pool through one of its entry points and
// checks the rejected-leaves-unchanged and replacement-accounting clauses.
func (s *Sim) Submit(t *MTx, api int) {
	r := s.r
	pool := s.n.Pool
	prePool, preOrph := s.poolSet(), s.orphanSet()
	wasIn := pool.IsTransactionInPool(&t.Hash)
	btx := btcutil.NewTx(t.Msg)
	var err error
	var accepted bool
	rate := r.C.Bool(500, "rate-limit")
	name := ""
	switch api {
	case 0:
		name = "ProcessTransaction"
		var ds []*mempool.TxDesc
		ds, err = pool.ProcessTransaction(btx, true, rate, mempool.Tag(r.C.Intn(3, "tag")))
		accepted = err == nil && len(ds) > 0
	case 1:
		name = "ProcessTransaction(noorphan)"
		var ds []*mempool.TxDesc
		ds, err = pool.ProcessTransaction(btx, false, rate, 0)
		accepted = err == nil && len(ds) > 0
	case 2:
		name = "MaybeAcceptTransaction"
		var d *mempool.TxDesc
		_, d, err = pool.MaybeAcceptTransaction(btx, true, rate)
		accepted = err == nil && d != nil
	case 3:
		name = "CheckMempoolAcceptance"
		_, err = pool.CheckMempoolAcceptance(btx)
	}
	postPool, postOrph := s.poolSet(), s.orphanSet()
	why := ""
	if err != nil {
		why = " (" + err.Error() + ")"
		if len(why) > 90 {
			why = why[:90] + ")"
		}
	}
	r.Event("submit", "%s tx=%s fee=%d ins=%d -> accepted=%v err=%v%s pool %d->%d orphans %d->%d", name, t.Hash.String()[:8], t.Fee, len(t.Ins), accepted, err != nil, why, len(prePool), len(postPool), len(preOrph), len(postOrph))
	r.Sig(fmt.Sprintf("s%d:%v:%v", api, accepted, err != nil))
	if api == 3 {
		if !sameSet(prePool, postPool) || !sameSet(preOrph, postOrph) {
			r.Violate("C10", "test-accept-changes-nothing", "", "CheckMempoolAcceptance changed the pool: pool %d->%d orphans %d->%d", len(prePool), len(postPool), len(preOrph), len(postOrph))
		}
		return
	}
	if err != nil {
		s.ps.rejected++
		if !sameSet(prePool, postPool) || !sameSet(preOrph, postOrph) {
			r.Violate("C10", "rejected-leaves-pool-unchanged", "", "%s(%s) returned error %v but pool membership changed: pool %d->%d orphans %d->%d", name, t.Hash.String()[:8], err, len(prePool), len(postPool), len(preOrph), len(postOrph))
		}
		return
	}
	if !accepted {
		if pool.IsOrphanInPool(&t.Hash) {
			s.ps.orphaned++
			r.Probe("orphan-stored")
		}
		return
	}
	s.ps.accepted++
	// whatever else entered the pool with it was promoted from the orphan
	// pool, so the orphan pool must have held it (orphan storage is bounded:
	// an evicted or expired orphan is gone for good)
	{
		inPre := map[chainhash.Hash]bool{}
		for _, h := range prePool {
			inPre[h] = true
		}
		wasOrphan := map[chainhash.Hash]bool{}
		for _, h := range preOrph {
			wasOrphan[h] = true
		}
		for _, h := range postPool {
			if !inPre[h] && h != t.Hash && !wasOrphan[h] {
				r.Violate("C10", "orphan-bounds", "", "accepting %s brought %s into the pool, which was neither pooled nor held as an orphan before: an orphan outside the bounded orphan pool was promoted", t.Hash.String()[:8], h.String()[:8])
			}
		}
	}
	if wasIn {
		r.Violate("C10", "duplicate-rejected", "", "transaction %s was already pooled and was accepted again", t.Hash.String()[:8])
	}
	// replacement accounting: what left the pool must be exactly the conflicts
	// and their descendants, computed here from the pre-state
	inPost := map[chainhash.Hash]bool{}
	for _, h := range postPool {
		inPost[h] = true
	}
	var evicted []chainhash.Hash
	for _, h := range prePool {
		if !inPost[h] {
			evicted = append(evicted, h)
		}
	}
	direct := map[chainhash.Hash]bool{}
	for _, h := range prePool {
		o := s.w.AllTx[h]
		if o == nil {
			continue
		}
		for _, op := range o.Ins {
			for _, mine := range t.Ins {
				if op == mine {
					direct[h] = true
				}
			}
		}
	}
	if len(direct) == 0 {
		if len(evicted) != 0 {
			r.Violate("C10", "accept-evicts-only-conflicts", "", "accepting %s (no conflicts) removed %d pooled transactions", t.Hash.String()[:8], len(evicted))
		}
		return
	}
	s.ps.replaced++
	r.Probe("replacement-accepted")
	want := s.poolDescendants(prePool, direct)
	if len(evicted) != len(want) {
		r.Violate("C10", "replacement-evicts-conflicts-and-descendants", "", "replacement %s: %d transactions left the pool, conflicts and their descendants are %d", t.Hash.String()[:8], len(evicted), len(want))
	}
	for _, h := range evicted {
		if !want[h] {
			r.Violate("C10", "replacement-evicts-conflicts-and-descendants", "", "replacement %s evicted %s which is neither a conflict nor a descendant of one", t.Hash.String()[:8], h.String()[:8])
		}
	}
	if len(evicted) > 100 {
		r.Violate("C10", "replacement-evicts-at-most-100", "", "replacement evicted %d transactions", len(evicted))
	}
	fee, ok := s.feeOf(t)
	if !ok {
		return
	}
	vs := vsize(t.Msg)
	var sum int64
	for _, h := range evicted {
		e := s.w.AllTx[h]
		ef, ok := s.feeOf(e)
		if !ok {
			return
		}
		sum += ef
		// strictly higher fee rate than each evicted transaction
		evs := vsize(e.Msg)
		if new(big.Int).Mul(big.NewInt(fee), big.NewInt(evs)).Cmp(new(big.Int).Mul(big.NewInt(ef), big.NewInt(vs))) <= 0 {
			r.Violate("C10", "replacement-fee-rate-higher", "", "replacement %s pays %d sat for %d vbytes, evicted %s paid %d sat for %d vbytes: not a strictly higher fee rate", t.Hash.String()[:8], fee, vs, h.String()[:8], ef, evs)
		}
	}
	relay := vs * int64(s.n.cfg.Pool.MinRelayTxFee) / 1000
	if fee < sum+relay {
		r.Violate("C10", "replacement-pays-for-evicted", "", "replacement %s pays %d sat, evicted transactions paid %d and the relay fee for %d vbytes is %d", t.Hash.String()[:8], fee, sum, vs, relay)
	}
	if s.n.cfg.Pool.RejectReplacement {
		r.Violate("C10", "replacement-policy", "", "a replacement was accepted although the policy rejects replacements")
	}
}

// CheckPool evaluates the whole-pool invariants I1..I4, I7 (DESIGN §5 C10).
func (s *Sim) CheckPool(where string) {
	r := s.r
	pool := s.n.Pool
	chain := s.n.Chain
	tip := s.n.Tip()
	descs := pool.TxDescs()
	sort.Slice(descs, func(i, j int) bool {
		a, b := descs[i].Tx.Hash(), descs[j].Tx.Hash()
		return string(a[:]) < string(b[:])
	})
	r.Count("pool_checks", 1)
	inPool := map[chainhash.Hash]*mempool.TxDesc{}
	for _, d := range descs {
		inPool[*d.Tx.Hash()] = d
	}
	// views agree on membership
	if pool.Count() != len(descs) || len(pool.MiningDescs()) != len(descs) || len(pool.TxHashes()) != len(descs) {
		r.Violate("C10", "pool-views-agree", "", "Count=%d TxDescs=%d MiningDescs=%d TxHashes=%d (%s)", pool.Count(), len(descs), len(pool.MiningDescs()), len(pool.TxHashes()), where)
	}
	for _, md := range pool.MiningDescs() {
		if inPool[*md.Tx.Hash()] == nil {
			r.Violate("C10", "pool-views-agree", "", "MiningDescs lists %v which TxDescs does not", md.Tx.Hash())
		}
	}
	if v := pool.RawMempoolVerbose(); len(v) != len(descs) {
		r.Violate("C10", "pool-views-agree", "", "RawMempoolVerbose has %d entries, pool has %d", len(v), len(descs))
	}
	spentBy := map[wire.OutPoint]chainhash.Hash{}
	snap := chain.BestSnapshot()
	for _, d := range descs {
		h := *d.Tx.Hash()
		if _, ok := s.ps.seenHeight[h]; !ok {
			s.ps.seenHeight[h] = snap.Height
			s.ps.seenMTP[h] = snap.MedianTime.Unix()
		}
		if !pool.IsTransactionInPool(&h) || !pool.HaveTransaction(&h) {
			r.Violate("C10", "pool-views-agree", "", "pooled %v not reported by IsTransactionInPool/HaveTransaction", h)
		}
		if ft, err := pool.FetchTransaction(&h); err != nil || *ft.Hash() != h {
			r.Violate("C10", "pool-views-agree", "", "FetchTransaction(%v): %v", h, err)
		}
		if pool.IsOrphanInPool(&h) {
			r.Violate("C10", "orphan-not-pooled", "", "%v is both pooled and an orphan", h)
		}
		for _, in := range d.Tx.MsgTx().TxIn {
			op := in.PreviousOutPoint
			// I1 no outpoint spent twice
			if o, dup := spentBy[op]; dup {
				r.Violate("C10", "no-double-spend-in-pool", "", "pooled %s and %s both spend %v (%s)", o.String()[:8], h.String()[:8], op, where)
			}
			spentBy[op] = h
			// I2 spend index agrees
			sp := pool.CheckSpend(op)
			if sp == nil || *sp.Hash() != h {
				r.Violate("C10", "spend-index-agrees", "", "CheckSpend(%v) does not return its pooled spender %s (%s)", op, h.String()[:8], where)
			}
			// I3 input unspent in the chain or an output of another pooled tx
			if p, ok := inPool[op.Hash]; ok {
				if int(op.Index) >= len(p.Tx.MsgTx().TxOut) {
					r.Violate("C10", "inputs-available", "", "pooled %s spends output %d of pooled %s which has %d outputs", h.String()[:8], op.Index, op.Hash.String()[:8], len(p.Tx.MsgTx().TxOut))
				}
				continue
			}
			e, err := chain.FetchUtxoEntry(op)
			if err != nil || e == nil || e.IsSpent() {
				key := ""
				if !s.n.Chain.IsCurrent() {
					key = "pool-not-updated-while-not-current"
				} else if where == "reorg" || s.reorgSincePoolEmpty {
					key = "pool-keeps-spends-of-disconnected-outputs"
				}
				r.Violate("C10", "inputs-available", key, "pooled %s spends %v which is neither unspent in the chain (tip %v) nor an output of a pooled transaction (%s)", h.String()[:8], op, tip, where)
			}
		}
	}
	// spend index has nothing extra: unspent chain outputs nobody spends
	n := 0
	for _, op := range s.w.UniOrder {
		if _, ok := tip.View[op]; !ok {
			continue
		}
		if _, ok := spentBy[op]; ok {
			continue
		}
		if sp := pool.CheckSpend(op); sp != nil {
			r.Violate("C10", "spend-index-agrees", "", "CheckSpend(%v) returns %v which is not pooled or does not spend it", op, sp.Hash())
		}
		if n++; n > 40 {
			break
		}
	}
	// I7 orphan bounds
	orph := s.orphanSet()
	if len(orph) > s.n.cfg.Pool.MaxOrphanTxs {
		r.Violate("C10", "orphan-bounds", "", "%d orphans held, configured maximum is %d", len(orph), s.n.cfg.Pool.MaxOrphanTxs)
	}
	for _, h := range orph {
		if sz := s.w.AllTx[h].Msg.SerializeSize(); sz > s.n.cfg.Pool.MaxOrphanTxSize {
			r.Violate("C10", "orphan-bounds", "", "orphan %v of %d bytes exceeds the configured %d", h, sz, s.n.cfg.Pool.MaxOrphanTxSize)
		}
	}
	if len(descs) == 0 {
		s.reorgSincePoolEmpty = false
	}
	r.State("pool=%d orph=%d tipd=%d", min(len(descs), 12), len(orph), min(int(tip.Height), 20))
}

// poolInOrder returns the pooled transactions in dependency order (parents
// first), by the harness's own records.
func (s *Sim) poolInOrder() ([]*MTx, bool) {
	pool := s.n.Pool
	var set []*MTx
	in := map[chainhash.Hash]bool{}
	for _, t := range s.w.AllTxOrder {
		if pool.IsTransactionInPool(&t.Hash) {
			set = append(set, t)
			in[t.Hash] = true
		}
	}
	if len(set) != pool.Count() {
		return nil, false // the pool holds transactions the harness did not build (block txs re-added by a reorg)
	}
	var out []*MTx
	done := map[chainhash.Hash]bool{}
	for len(out) < len(set) {
		progress := false
		for _, t := range set {
			if done[t.Hash] {
				continue
			}
			ready := true
			for _, op := range t.Ins {
				if in[op.Hash] && !done[op.Hash] {
					ready = false
				}
			}
			if ready {
				out = append(out, t)
				done[t.Hash] = true
				progress = true
			}
		}
		if !progress {
			return nil, false
		}
	}
	return out, true
}

// minableNow: chain height and median time have not moved backwards since any
// pooled transaction was first seen in the pool.
func (s *Sim) minableNow() bool {
	snap := s.n.Chain.BestSnapshot()
	if snap.MedianTime.Unix()+1 > s.adjNow()+7200 {
		// no block at all can be mined at present: the earliest time the
		// chain allows is more than two hours ahead of the adjusted clock
		// (the clock was stepped back by skewed peers under a chain whose
		// timestamps run ahead)
		s.r.Probe("no-block-possible-now:median-time-two-hours-ahead-of-the-clock")
		return false
	}
	for _, h := range s.n.Pool.TxHashes() {
		if sh, ok := s.ps.seenHeight[*h]; ok && (snap.Height < sh || snap.MedianTime.Unix() < s.ps.seenMTP[*h]) {
			return false
		}
	}
	return true
}

// CheckMinable (I4): the pooled set in dependency order, assembled into a
// block by the harness's own builder, passes CheckConnectBlockTemplate.
func (s *Sim) CheckMinable() (*MBlock, []*MTx) {
	r := s.r
	txs, ok := s.poolInOrder()
	if !ok || len(txs) == 0 {
		return nil, nil
	}
	if !s.minableNow() {
		r.Probe("minable-skipped:height-or-mtp-moved-back")
		return nil, nil
	}
	tip := s.n.Tip()
	var cost int64
	for _, t := range txs {
		if f, ok := s.feeOf(t); ok {
			t.Fee = f
		}
		cost += s.sigOpCostModel(t, true)
	}
	if cost > 79000 {
		// more signature operations than one block may carry: the pooled set
		// is not expected to fit a single block
		r.Probe("minable-skipped:more-than-one-block-of-sigops")
		return nil, nil
	}
	ts := s.adjNow()
	blk := s.w.Build(tip, BlockOpts{Txs: txs, TsAbs: ts, Dry: true})
	err := s.n.Chain.CheckConnectBlockTemplate(btcutil.NewBlock(blk.Msg))
	r.Count("minable_checks", 1)
	if err != nil {
		key := ""
		if !s.n.Chain.IsCurrent() {
			key = "pool-not-updated-while-not-current"
		} else if s.reorgSincePoolEmpty {
			key = "pool-keeps-spends-of-disconnected-outputs"
		}
		detail := ""
		for _, t := range txs {
			detail += fmt.Sprintf(" [%s v%d lock=%d seq0=%x]", t.Hash.String()[:8], t.Msg.Version, t.Msg.LockTime, t.Msg.TxIn[0].Sequence)
		}
		r.Violate("C10", "pooled-set-minable", key, "the %d pooled transactions in dependency order do not form a valid next block on %v (block time %d, parent MTP %d): %v;%s", len(txs), tip, blk.H.ts, tip.mtp(), err, detail)
		return nil, nil
	}
	r.Probe("pooled-set-minable")
	return blk, txs
}

var _ = txscript.OP_TRUE

// evictionLimitScenario builds two fans of replaceable transactions (a root
// with many outputs and one child per output) on two confirmed outputs, sized
// so that together they sit around the limit of 100 evictions, and then
// submits one replacement that conflicts with both roots.  The replacement
// accounting of Submit judges the outcome.
func (s *Sim) evictionLimitScenario() {
	c := s.r.C
	w := s.w
	tip := s.n.Tip()
	pool := s.n.Pool
	next := tip.Height + 1
	var roots []wire.OutPoint
	for _, op := range w.UniOrder {
		rec, ok := tip.View[op]
		if !ok || rec.Kind == KOpReturn || rec.Kind == KP2WPKH || rec.Value < 50_000_000 {
			continue
		}
		if rec.Coinbase && next-rec.Height < w.Net.Maturity {
			continue
		}
		if pool.CheckSpend(op) != nil {
			continue
		}
		roots = append(roots, op)
		if len(roots) == 2 {
			break
		}
	}
	if len(roots) < 2 {
		return
	}
	total := 98 + c.Intn(6, "fan-total") // 98..103 transactions to evict
	a := 1 + c.Intn(total-1, "fan-split")
	sizes := []int{a, total - a}
	feeEach := int64(20000)
	var sum int64
	for k, op := range roots {
		rec := tip.View[op]
		n := sizes[k] - 1 // children
		p := &txPlan{Version: 2, Ins: []planIn{{Op: op, Rec: rec, Seq: 0xfffffffd}}}
		left := rec.Value - feeEach - int64(40*n)
		nout := n
		if nout == 0 {
			nout = 1
		}
		for i := 0; i < nout; i++ {
			v := left / int64(nout-i)
			left -= v
			p.Outs = append(p.Outs, &wire.TxOut{Value: v, PkScript: w.script(KTrue, 0)})
		}
		root := w.makeTx(p)
		root.Fee = feeEach + int64(40*n)
		w.addTx(root)
		s.Submit(root, 1)
		if !pool.IsTransactionInPool(&root.Hash) {
			s.r.Probe("fan-root-refused")
			return
		}
		sum += root.Fee
		for i := 0; i < n; i++ {
			out := root.Msg.TxOut[i]
			crec := &utxoRec{Value: out.Value, PkScript: out.PkScript, Height: next, Kind: KTrue}
			// (distinct fees: which of several equally attractive transactions
			// a template takes is decided by map order inside the node)
			cfee := feeEach + int64(7*(i+1)+1000*k)
			cp := &txPlan{Version: 2, Ins: []planIn{{Op: wire.OutPoint{Hash: root.Hash, Index: uint32(i)}, Rec: crec, Seq: 0xffffffff}},
				Outs: []*wire.TxOut{{Value: out.Value - cfee, PkScript: w.script(KP2PKH, 0)}}}
			ch := w.makeTx(cp)
			ch.Fee = cfee
			w.addTx(ch)
			s.Submit(ch, 1)
			if !pool.IsTransactionInPool(&ch.Hash) {
				s.r.Probe("fan-child-refused")
				return
			}
			sum += cfee
		}
	}
	s.CheckPool("fan-built")
	// the replacement: both confirmed outputs, pays for everything it evicts
	r0, r1 := tip.View[roots[0]], tip.View[roots[1]]
	fee := sum + 1_000_000 + int64(c.Intn(1000, "fan-fee"))
	if fee >= r0.Value+r1.Value {
		return
	}
	p := &txPlan{Version: 2, Ins: []planIn{{Op: roots[0], Rec: r0, Seq: 0xfffffffd}, {Op: roots[1], Rec: r1, Seq: 0xfffffffd}},
		Outs: []*wire.TxOut{{Value: r0.Value + r1.Value - fee, PkScript: w.script(KTrue, 0)}}}
	t := w.makeTx(p)
	t.Fee = fee
	w.addTx(t)
	s.r.Event("fan-replacement", "clusters %d+%d=%d fee=%d", sizes[0], sizes[1], total, fee)
	s.r.Probe(fmt.Sprintf("eviction-limit-scenario:%d", total))
	s.Submit(t, 0)
	s.CheckPool("fan-replaced")
}

// disconnectScenario: a block confirms a parent P the pool would refuse on
// its own (a 61-byte transaction, below the pool's minimum size) together
// with a child T of P; the pool then admits D on top of T; a competing branch
// overtakes and the block is disconnected.  P cannot come back, T comes back
// with a missing parent, so D must leave the pool as well.
func (s *Sim) disconnectScenario() {
	c := s.r.C
	w := s.w
	tip := s.n.Tip()
	pool := s.n.Pool
	next := tip.Height + 1
	var op wire.OutPoint
	var rec *utxoRec
	for _, o := range w.UniOrder {
		r, ok := tip.View[o]
		if !ok || (r.Kind != KTrue && r.Kind != KP2SHTrue) || r.Value < 1_000_000 || pool.CheckSpend(o) != nil {
			continue
		}
		if r.Coinbase && next-r.Height < w.Net.Maturity {
			continue
		}
		op, rec = o, r
		break
	}
	if rec == nil {
		return
	}
	// P: one input, one OP_TRUE output (61 bytes with an empty signature script)
	pp := &txPlan{Version: 1, Ins: []planIn{{Op: op, Rec: rec, Seq: 0xffffffff}}, Outs: []*wire.TxOut{{Value: rec.Value - 1000, PkScript: w.script(KTrue, 0)}}}
	P := w.makeTx(pp)
	P.Fee = 1000
	w.addTx(P)
	prec := &utxoRec{Value: rec.Value - 1000, PkScript: w.script(KTrue, 0), Height: next, Kind: KTrue}
	tp := &txPlan{Version: 1, Ins: []planIn{{Op: wire.OutPoint{Hash: P.Hash}, Rec: prec, Seq: 0xffffffff}},
		Outs: []*wire.TxOut{{Value: (prec.Value - 2000) / 2, PkScript: w.script(KP2PKH, 0)}, {Value: (prec.Value - 2000) / 2, PkScript: w.script(KP2PKH, 1%len(w.Keys))}}}
	T := w.makeTx(tp)
	T.Fee = prec.Value - 2*((prec.Value-2000)/2)
	w.addTx(T)
	x := w.Build(tip, BlockOpts{Txs: []*MTx{P, T}, TsAbs: s.adjNow()})
	s.r.Event("mine", "%v on %v with a tiny parent and its child (disconnect scenario)", x, tip)
	s.ensureClock(x)
	s.Deliver(x)
	s.CheckState("connect")
	if s.n.Tip() != x {
		return
	}
	// D (and sometimes a grandchild) on top of T, in the pool
	trec := &utxoRec{Value: T.Msg.TxOut[0].Value, PkScript: T.Msg.TxOut[0].PkScript, Height: x.Height, Kind: KP2PKH, Key: 0}
	dp := &txPlan{Version: 2, Ins: []planIn{{Op: wire.OutPoint{Hash: T.Hash}, Rec: trec, Seq: 0xfffffffd}},
		Outs: []*wire.TxOut{{Value: trec.Value - 5000, PkScript: w.script(KP2PKH, 0)}}}
	D := w.makeTx(dp)
	D.Fee = 5000
	w.addTx(D)
	s.Submit(D, 0)
	s.CheckPool("submit")
	// the competing branch: two blocks on x's parent
	parent := tip
	n := 2 + c.Intn(2, "disc-branch")
	for i := 0; i < n; i++ {
		y := w.Build(parent, BlockOpts{NTx: c.Intn(2, "ntx")})
		s.r.Event("mine", "%v on %v (branch that disconnects the scenario block)", y, parent)
		s.ensureClock(y)
		s.Deliver(y)
		s.CheckState("deliver")
		s.CheckPool("reorg")
		parent = y
	}
	s.r.Probe("disconnect-scenario")
}

// witnessFan puts n transactions with witness data into the pool: a root with
// n pay-to-witness-key-hash outputs and one spender per output, each paying a
// distinct fee.  Returns how many were admitted.
func (s *Sim) witnessFan(n int) int {
	w := s.w
	tip := s.n.Tip()
	pool := s.n.Pool
	next := tip.Height + 1
	if !w.active(tip, chaincfg.DeploymentSegwit) {
		return 0
	}
	var op wire.OutPoint
	var rec *utxoRec
	for _, o := range w.UniOrder {
		r, ok := tip.View[o]
		if !ok || r.Kind == KOpReturn || r.Kind == KP2WPKH || r.Value < 20_000_000 || pool.CheckSpend(o) != nil {
			continue
		}
		if r.Coinbase && next-r.Height < w.Net.Maturity {
			continue
		}
		op, rec = o, r
		break
	}
	if rec == nil {
		return 0
	}
	p := &txPlan{Version: 2, Ins: []planIn{{Op: op, Rec: rec, Seq: 0xfffffffd}}}
	rootFee := int64(30000)
	each := (rec.Value - rootFee) / int64(n)
	for i := 0; i < n; i++ {
		p.Outs = append(p.Outs, &wire.TxOut{Value: each, PkScript: w.script(KP2WPKH, i%len(w.Keys))})
	}
	root := w.makeTx(p)
	root.Fee = rec.Value - each*int64(n)
	w.addTx(root)
	s.Submit(root, 1)
	if !pool.IsTransactionInPool(&root.Hash) {
		return 0
	}
	admitted := 0
	for i := 0; i < n; i++ {
		crec := &utxoRec{Value: each, PkScript: root.Msg.TxOut[i].PkScript, Height: next, Kind: KP2WPKH, Key: i % len(w.Keys)}
		fee := int64(15000 + 11*i)
		cp := &txPlan{Version: 2, Ins: []planIn{{Op: wire.OutPoint{Hash: root.Hash, Index: uint32(i)}, Rec: crec, Seq: 0xffffffff}},
			Outs: []*wire.TxOut{{Value: each - fee, PkScript: w.script(KP2PKH, 0)}}}
		ch := w.makeTx(cp)
		ch.Fee = fee
		w.addTx(ch)
		s.Submit(ch, 1)
		if pool.IsTransactionInPool(&ch.Hash) {
			admitted++
		}
	}
	return admitted
}

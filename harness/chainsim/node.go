package chainsim

import (
	"bytes"
	"fmt"
	"os"
	"path/filepath"
	"sync/atomic"
	"time"

	"github.com/btcsuite/btcd/blockchain"
	"github.com/btcsuite/btcd/btcutil/v2"
	"github.com/btcsuite/btcd/chainhash/v2"
	"github.com/btcsuite/btcd/database"
	_ "github.com/btcsuite/btcd/database/ffldb"
	"github.com/btcsuite/btcd/mempool"
	"github.com/btcsuite/btcd/mining"
	"github.com/btcsuite/btcd/netsync"
	"github.com/btcsuite/btcd/peer"
	"github.com/btcsuite/btcd/txscript/v2"
	"github.com/btcsuite/btcd/wire/v2"

	"verif/harness/memdb"
	"verif/harness/simkit"
)

// Store provides the database under the node.
type Store interface {
	Open() (database.DB, error)
	Destroy()
	Kind() string
}

var dbSeq atomic.Uint64

// diskStore is real ffldb + goleveldb on the real disk (scratch directory
// under /verif/.work, removed at the end of the run).
type diskStore struct {
	path    string
	net     wire.BitcoinNet
	created bool
}

func newDiskStore(net wire.BitcoinNet) *diskStore {
	base := os.Getenv("VERIF_DBDIR")
	if base == "" {
		base = "/verif/.work/db"
	}
	p := filepath.Join(base, fmt.Sprintf("p%d-%d", os.Getpid(), dbSeq.Add(1)))
	os.MkdirAll(base, 0o755)
	return &diskStore{path: p, net: net}
}

func (s *diskStore) Open() (database.DB, error) {
	if !s.created {
		s.created = true
		return database.Create("ffldb", s.path, s.net)
	}
	return database.Open("ffldb", s.path, s.net)
}
func (s *diskStore) Destroy()     { os.RemoveAll(s.path) }
func (s *diskStore) Kind() string { return "ffldb-on-disk" }

// NodeCfg are the per-run knobs of the node.
type NodeCfg struct {
	UtxoCacheMax uint64
	Prune        uint64
	SigCache     bool
	HashCache    bool
	Pool         *mempool.Policy // nil: no mempool / miner
	Mining       mining.Policy
}

// stubNotifier is the PeerNotifier stub: it records, nothing else.
type stubNotifier struct {
	Announced int
	Confirmed int
	Relayed   int
}

func (s *stubNotifier) AnnounceNewTransactions(newTxs []*mempool.TxDesc) { s.Announced += len(newTxs) }
func (s *stubNotifier) UpdatePeerHeights(*chainhash.Hash, int32, *peer.Peer) {}
func (s *stubNotifier) RelayInventory(*wire.InvVect, interface{})         { s.Relayed++ }
func (s *stubNotifier) TransactionConfirmed(*btcutil.Tx)                  { s.Confirmed++ }

// Node wraps the real btcd chain (and later pool/miner) of one run.
type Node struct {
	r     *simkit.Run
	w     *World
	cfg   NodeCfg
	store Store
	db    database.DB
	Chain *blockchain.BlockChain
	Time  blockchain.MedianTimeSource

	Pool     *mempool.TxPool
	SM       *netsync.SyncManager
	Gen      *mining.BlkTmplGenerator
	Notifier stubNotifier

	sigCache  *txscript.SigCache
	hashCache *txscript.HashCache

	// notification stream replayed on a stack of model blocks
	stack      []*MBlock
	notifErr   string
	connects   int
	disconnect int
	// every block announced as tip by a notification, since the world began
	EverActive map[*MBlock]bool
	// hooks for other components (mempool handler)
	onNotify func(n *blockchain.Notification)
	// called with the new announced tip after each connect/disconnect
	onTip func(tip *MBlock)
}

func NewNode(r *simkit.Run, w *World, cfg NodeCfg, store Store) *Node {
	n := &Node{r: r, w: w, cfg: cfg, store: store, EverActive: map[*MBlock]bool{w.Blocks[0]: true}}
	n.Time = blockchain.NewMedianTime()
	if cfg.SigCache {
		n.sigCache = txscript.NewSigCache(1000)
	}
	if cfg.HashCache {
		n.hashCache = txscript.NewHashCache(1000)
	}
	return n
}

// Open opens the database and creates the chain instance.  The notification
// stack is re-based on the recovered tip (recovery replays silently).
func (n *Node) Open() error {
	db, err := n.store.Open()
	if err != nil {
		return fmt.Errorf("db open: %w", err)
	}
	n.db = db
	params := n.w.Net.Params()
	chain, err := blockchain.New(&blockchain.Config{
		DB:               db,
		ChainParams:      params,
		TimeSource:       n.Time,
		SigCache:         n.sigCache,
		HashCache:        n.hashCache,
		UtxoCacheMaxSize: n.cfg.UtxoCacheMax,
		Prune:            n.cfg.Prune,
	})
	if err != nil {
		db.Close()
		n.db = nil
		return fmt.Errorf("blockchain.New: %w", err)
	}
	n.Chain = chain
	chain.Subscribe(n.notify)
	if n.cfg.Pool != nil {
		// wired exactly like server.go does
		n.Pool = mempool.New(&mempool.Config{
			Policy:         *n.cfg.Pool,
			ChainParams:    params,
			FetchUtxoView:  chain.FetchUtxoView,
			BestHeight:     func() int32 { return chain.BestSnapshot().Height },
			MedianTimePast: func() time.Time { return chain.BestSnapshot().MedianTime },
			CalcSequenceLock: func(tx *btcutil.Tx, view *blockchain.UtxoViewpoint) (*blockchain.SequenceLock, error) {
				return chain.CalcSequenceLock(tx, view, true)
			},
			IsDeploymentActive: chain.IsDeploymentActive,
			SigCache:           n.sigCache,
			HashCache:          n.hashCache,
		})
		// the real SyncManager is constructed (never started): its
		// constructor subscribes the real block connect/disconnect handler
		sm, err := netsync.New(&netsync.Config{PeerNotifier: &n.Notifier, Chain: chain, TxMemPool: n.Pool, ChainParams: params, MaxPeers: 8})
		if err != nil {
			return fmt.Errorf("netsync.New: %w", err)
		}
		n.SM = sm
		n.Gen = mining.NewBlkTmplGenerator(&n.cfg.Mining, params, n.Pool, chain, n.Time, n.sigCache, n.hashCache)
	}
	// re-base the stack
	n.stack = nil
	tip := n.w.ByHash[chain.BestSnapshot().Hash]
	for b := tip; b != nil; b = b.Parent {
		n.stack = append(n.stack, b)
	}
	for i, j := 0, len(n.stack)-1; i < j; i, j = i+1, j-1 {
		n.stack[i], n.stack[j] = n.stack[j], n.stack[i]
	}
	return nil
}

func (n *Node) notify(nt *blockchain.Notification) {
	switch nt.Type {
	case blockchain.NTBlockConnected:
		blk := nt.Data.(*btcutil.Block)
		b := n.w.ByHash[*blk.Hash()]
		n.connects++
		if b == nil {
			n.notifErr = fmt.Sprintf("connected notification for unknown block %v", blk.Hash())
		} else {
			if len(n.stack) == 0 || n.stack[len(n.stack)-1] != b.Parent {
				n.notifErr = fmt.Sprintf("connected %v but its parent %v is not the previously announced tip %v", b, b.Parent, n.top())
			}
			n.stack = append(n.stack, b)
			n.EverActive[b] = true
		}
	case blockchain.NTBlockDisconnected:
		blk := nt.Data.(*btcutil.Block)
		b := n.w.ByHash[*blk.Hash()]
		n.disconnect++
		if b == nil || len(n.stack) == 0 || n.stack[len(n.stack)-1] != b {
			n.notifErr = fmt.Sprintf("disconnected %v but the announced tip is %v", b, n.top())
		} else {
			n.stack = n.stack[:len(n.stack)-1]
			n.EverActive[n.top()] = true
		}
	}
	if n.onTip != nil && (nt.Type == blockchain.NTBlockConnected || nt.Type == blockchain.NTBlockDisconnected) {
		n.onTip(n.top())
	}
	if n.onNotify != nil {
		n.onNotify(nt)
	}
}

func (n *Node) top() *MBlock {
	if len(n.stack) == 0 {
		return nil
	}
	return n.stack[len(n.stack)-1]
}

// CloseClean shuts the node down the way btcd does: flush the UTXO cache,
// then close the database.
func (n *Node) CloseClean() error {
	if n.Chain == nil {
		return nil
	}
	err := n.Chain.FlushUtxoCache(blockchain.FlushRequired)
	n.Chain = nil
	if cerr := n.db.Close(); err == nil {
		err = cerr
	}
	n.db = nil
	return err
}

// CloseAbandon drops the chain instance without flushing the UTXO cache (the
// process dies; every completed database commit survives).
func (n *Node) CloseAbandon() error {
	n.Chain = nil
	err := n.db.Close()
	n.db = nil
	return err
}

// Tip returns the model block of the node's best snapshot.
func (n *Node) Tip() *MBlock { return n.w.ByHash[n.Chain.BestSnapshot().Hash] }

// isRule reports whether err is a consensus rule error (as opposed to an
// assertion, database or other internal error).
func isRule(err error) bool {
	_, ok := err.(blockchain.RuleError)
	return ok
}

func isDup(err error) bool {
	re, ok := err.(blockchain.RuleError)
	return ok && re.ErrorCode == blockchain.ErrDuplicateBlock
}

// utxoMismatch compares the node's answer for one outpoint with the model.
func utxoMismatch(op wire.OutPoint, e *blockchain.UtxoEntry, rec *utxoRec) string {
	present := e != nil && !e.IsSpent()
	if !present {
		if rec != nil {
			return fmt.Sprintf("%v: node says absent/spent, fold says unspent %d sat created at %d", op, rec.Value, rec.Height)
		}
		return ""
	}
	if rec == nil {
		return fmt.Sprintf("%v: node says unspent (%d sat, height %d), fold says absent", op, e.Amount(), e.BlockHeight())
	}
	if e.Amount() != rec.Value || !bytes.Equal(e.PkScript(), rec.PkScript) || e.BlockHeight() != rec.Height || e.IsCoinBase() != rec.Coinbase {
		return fmt.Sprintf("%v: node (%d sat, h=%d, cb=%v, script %x) != fold (%d sat, h=%d, cb=%v, script %x)", op,
			e.Amount(), e.BlockHeight(), e.IsCoinBase(), e.PkScript(), rec.Value, rec.Height, rec.Coinbase, rec.PkScript)
	}
	return ""
}

// CompareUtxo checks every outpoint the world ever produced against the fold
// of tip's chain on the given chain instance.  Returns the first mismatch.
func (n *Node) CompareUtxo(chain *blockchain.BlockChain, tip *MBlock) string {
	for _, op := range n.w.UniOrder {
		e, err := chain.FetchUtxoEntry(op)
		if err != nil {
			return fmt.Sprintf("FetchUtxoEntry(%v): %v", op, err)
		}
		if m := utxoMismatch(op, e, tip.View[op]); m != "" {
			return m
		}
	}
	return ""
}

// prunedFn is nil on an unpruned node; on a pruned one it tells whether the
// block data (and with it the spend journal) of h was deleted.
func (n *Node) prunedFn() func(h chainhash.Hash) bool {
	if n.cfg.Prune == 0 {
		return nil
	}
	return func(h chainhash.Hash) bool {
		have := false
		n.db.View(func(tx database.Tx) error {
			have, _ = tx.HasBlock(&h)
			return nil
		})
		return !have
	}
}

// CompareJournal checks the spend journal of every main-chain block.
func (n *Node) CompareJournal(chain *blockchain.BlockChain, tip *MBlock, pruned func(h chainhash.Hash) bool) string {
	for b := tip; b != nil && b.Height > 0; b = b.Parent {
		if pruned != nil && pruned(b.Hash) {
			continue
		}
		st, err := chain.FetchSpendJournal(btcutil.NewBlock(b.Msg))
		if err != nil {
			return fmt.Sprintf("FetchSpendJournal(%v): %v", b, err)
		}
		if len(st) != len(b.Spent) {
			return fmt.Sprintf("spend journal of %v has %d entries, fold spends %d outputs", b, len(st), len(b.Spent))
		}
		for i, s := range st {
			r := b.Spent[i]
			if s.Amount != r.Value || !bytes.Equal(s.PkScript, r.PkScript) || s.Height != r.Height || s.IsCoinBase != r.Coinbase {
				return fmt.Sprintf("spend journal of %v entry %d: node (%d sat h=%d cb=%v) != fold (%d sat h=%d cb=%v)", b, i,
					s.Amount, s.Height, s.IsCoinBase, r.Value, r.Height, r.Coinbase)
			}
		}
	}
	return ""
}

// memStore is the in-memory storage stub (package memdb) with a commit log.
type memStore struct {
	DB      *memdb.DB
	maxFile uint32
}

func newMemStore(maxFile uint32) *memStore { return &memStore{maxFile: maxFile} }

func (s *memStore) Open() (database.DB, error) {
	if s.DB == nil {
		s.DB = memdb.New(s.maxFile)
	} else {
		s.DB = s.DB.Reopen()
	}
	return s.DB, nil
}
func (s *memStore) Destroy()     {}
func (s *memStore) Kind() string { return "memdb" }

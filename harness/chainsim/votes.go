package chainsim

import (
	"github.com/btcsuite/btcd/blockchain"
	"github.com/btcsuite/btcd/chaincfg/v2"

	"verif/harness/simkit"
)

// drawVoteDeployments replaces the deployment table with seeded BIP9
// definitions (well-formed: start < timeout) so that every state is reachable
// within a few short windows.
func drawVoteDeployments(r *simkit.Run, n *NetCfg, genesisTs int64) {
	c := r.C
	n.Window = uint32(simkit.Range(c, 3, 10, "window"))
	n.Threshold = uint32(simkit.Range(c, 1, int(n.Window), "threshold"))
	bits := []uint8{0, 1, 2, 5, 22, 28}
	ids := []int{chaincfg.DeploymentTestDummy, chaincfg.DeploymentTestDummyMinActivation, chaincfg.DeploymentCSV,
		chaincfg.DeploymentSegwit, chaincfg.DeploymentTaproot, chaincfg.DeploymentTestDummyAlwaysActive}
	for i, id := range ids {
		d := DepCfg{Bit: bits[i]}
		switch simkit.Pick(c, "dep-start", 3, 4, 2) {
		case 0: // always started
		case 1:
			d.Start = genesisTs + int64(simkit.Range(c, 0, 30, "dep-start-off"))*600
		case 2:
			d.Start = genesisTs - 3600 // in the past
		}
		switch simkit.Pick(c, "dep-end", 3, 5) {
		case 0: // never
		case 1:
			base := d.Start
			if base == 0 {
				base = genesisTs
			}
			d.End = base + int64(simkit.Range(c, 1, 60, "dep-end-off"))*600
		}
		if c.Bool(350, "dep-speedy") {
			if c.Bool(600, "dep-custom-thr") {
				d.Custom = uint32(simkit.Range(c, 1, int(n.Window), "dep-custom"))
			}
			if c.Bool(600, "dep-minact") || d.Custom == 0 {
				d.MinAct = uint32(simkit.Range(c, 1, 40, "dep-minact-h"))
			}
		}
		if c.Bool(150, "dep-always") {
			d.AlwaysActive = uint32(simkit.Range(c, 1, 30, "dep-always-h"))
		}
		n.Deps[id] = d
	}
}

// voteMask draws the version bits a block signals: each deployment's bit with
// a probability close to its threshold so that windows end at threshold-1 and
// threshold often.
func (s *Sim) voteMask() uint32 {
	c := s.r.C
	n := s.w.Net
	var m uint32
	for id := range n.Deps {
		thr := n.Threshold
		if n.Deps[id].Custom != 0 {
			thr = n.Deps[id].Custom
		}
		p := int(thr) * 1000 / int(n.Window)
		if p > 950 {
			p = 950
		}
		if c.Bool(p, "vote") {
			m |= 1 << n.Deps[id].Bit
		}
	}
	return m
}

var stateOf = map[blockchain.ThresholdState]DepState{
	blockchain.ThresholdDefined: DepDefined, blockchain.ThresholdStarted: DepStarted, blockchain.ThresholdLockedIn: DepLockedIn,
	blockchain.ThresholdActive: DepActive, blockchain.ThresholdFailed: DepFailed,
}

// CheckVotes compares deployment states and the proposed block version with
// the cache-less BIP9 model: at the tip through the public API and at
// arbitrary known blocks of any branch, in seeded order, through the hook.
func (s *Sim) CheckVotes() {
	r := s.r
	c := r.C
	w := s.w
	ch := s.n.Chain
	tip := s.n.Tip()
	r.Count("vote_query_batches", 1)
	for id := range w.Net.Deps {
		got, err := ch.ThresholdState(uint32(id))
		want := w.Net.depState(tip.H, id)
		if err != nil || stateOf[got] != want {
			r.Violate("C14", "threshold-state-at-tip", "", "ThresholdState(deployment %d) after tip %v = %v err=%v, BIP9 state machine gives %v (def %+v window %d thr %d)", id, tip, got, err, want, w.Net.Deps[id], w.Net.Window, w.Net.Threshold)
		}
		act, err := ch.IsDeploymentActive(uint32(id))
		if err != nil || act != (want == DepActive) {
			r.Violate("C14", "is-deployment-active", "", "IsDeploymentActive(%d) after %v = %v err=%v, model state %v", id, tip, act, err, want)
		}
		r.State("dep%d=%v", id, want)
		r.Probe("state-seen:" + want.String())
	}
	v, err := ch.CalcNextBlockVersion()
	if err != nil || v != w.Net.nextVersion(tip.H) {
		r.Violate("C14", "next-block-version", "", "CalcNextBlockVersion() after %v = %08x err=%v, model %08x", tip, uint32(v), err, uint32(w.Net.nextVersion(tip.H)))
	}
	// arbitrary nodes of any branch, seeded order (shares / pollutes the cache)
	var known []*MBlock
	for _, b := range w.Blocks {
		if s.nodeKnown(b) {
			known = append(known, b)
		}
	}
	nq := simkit.Range(c, 3, 12, "vote-queries")
	for i := 0; i < nq && len(known) > 0; i++ {
		b := known[c.Intn(len(known), "vote-at")]
		id := c.Intn(len(w.Net.Deps), "vote-dep")
		got, err := ch.VerifDeploymentStateAt(&b.Hash, uint32(id))
		want := w.Net.depState(b.H, id)
		if err != nil || stateOf[got] != want {
			r.Violate("C14", "threshold-state-any-node", "", "deployment %d state after %v (branch tip query #%d) = %v err=%v, BIP9 state machine gives %v (def %+v window %d thr %d)", id, b, i, got, err, want, w.Net.Deps[id], w.Net.Window, w.Net.Threshold)
		}
		// Active and Failed are never left along a branch
		if b.Parent != nil {
			pg, perr := ch.VerifDeploymentStateAt(&b.Parent.Hash, uint32(id))
			forced := w.Net.Deps[id].AlwaysActive != 0 && uint32(b.Height)+1 >= w.Net.Deps[id].AlwaysActive
			if perr == nil && (pg == blockchain.ThresholdActive || pg == blockchain.ThresholdFailed) && got != pg && !forced {
				r.Violate("C14", "terminal-states-absorbing", "", "deployment %d is %v after %v but %v after its child %v", id, pg, b.Parent, got, b)
			}
		}
		nv, err := ch.VerifNextBlockVersionAt(&b.Hash)
		if err != nil || nv != w.Net.nextVersion(b.H) {
			r.Violate("C14", "next-block-version", "", "next block version after %v = %08x err=%v, model %08x", b, uint32(nv), err, uint32(w.Net.nextVersion(b.H)))
		}
		if !b.IsAncestorOf(tip) {
			r.Probe("vote-query-on-side-branch")
		}
	}
}

package chainsim

import (
	"bytes"
	"errors"
	"fmt"
	"math/big"
	"time"

	"github.com/btcsuite/btcd/blockchain"
	"github.com/btcsuite/btcd/btcutil/v2"
	"github.com/btcsuite/btcd/database"
	"github.com/btcsuite/btcd/wire/v2"

	"verif/harness/simkit"
)

// Sim is one chainsim run: world + node + what the harness delivered.
type Sim struct {
	r    *simkit.Run
	w    *World
	n    *Node
	prof string

	clockSteppedBack bool // the adjusted clock was moved back once in this run
	skewPeers        int

	delivered map[*MBlock]bool // ProcessBlock was called and did not fail with an internal error
	doubt     map[*MBlock]bool // delivered as orphan, may have been expired/evicted since
	manualInv map[*MBlock]bool
	pending   []*MBlock // built, not yet delivered
	prevTip   *MBlock
	tipMoved  bool // an invalidate call happened since prevTip was recorded

	reorgs     int
	maxReorg   int
	judgedInv  int
	restarts   int
	orphansNow int
	// when a block was handed over as an orphan (orphans are only kept for a
	// bounded simulated time; older ones may have been dropped)
	orphanSince map[*MBlock]time.Time

	// crash bookkeeping (memdb only): tip announcements and acknowledgements
	// stamped with the number of completed database commits
	announced []announce
	ackCommit map[*MBlock]int
	quiet     bool // sub-simulation: no event log lines, no signature tokens
	sub       bool // sub-simulation: a pruning limit ends it, not the run
	gaveUp    bool
	// sub-simulation on a recovered node: blocks it already held at reopen
	preKnown map[*MBlock]bool
	stuck    *MBlock

	// blocks the node certainly marked invalid when an ancestor (or the block
	// itself) was invalidated: every indexed descendant when the invalidated
	// block was on a side chain, the main-chain descendants when it was active
	markedInvalid map[*MBlock]bool

	hdr     *hdrState // headers-first model of the current node instance
	everInv bool      // InvalidateBlock was used in this run

	heavySigops         bool // buildPoolTx produces sigop-heavy transactions
	preferWitness       bool // buildPoolTx spends witness-program outputs only
	// failedAttach: blocks the node itself found invalid while trying to
	// attach a branch in one ProcessBlock call - the block that failed
	// validation and every later block of that branch up to the delivered one
	failedAttach map[*MBlock]bool
	ps                  *poolState
	reorgSincePoolEmpty bool // a reorganisation happened while the pool was not empty
}

func btcutilBlock(b *MBlock) *btcutil.Block { return btcutil.NewBlock(b.Msg) }

// commits returns the number of completed database commits (memdb only).
func (s *Sim) commits() int {
	if ms, ok := s.n.store.(*memStore); ok && ms.DB != nil {
		return ms.DB.Commits()
	}
	return 0
}

func (s *Sim) adjNow() int64 { return s.n.Time.AdjustedTime().Unix() }

// excluded reports whether b or an ancestor is manually invalidated.
func (s *Sim) excluded(b *MBlock) bool {
	for n := b; n != nil; n = n.Parent {
		if s.manualInv[n] {
			return true
		}
	}
	return false
}

func (s *Sim) have(b *MBlock) bool {
	ok, err := s.n.Chain.HaveBlock(&b.Hash)
	if err != nil {
		s.r.Violate("C02", "haveblock-error", "", "HaveBlock(%v): %v", b, err)
	}
	return ok
}

func (s *Sim) isOrphan(b *MBlock) bool { return s.n.Chain.IsKnownOrphan(&b.Hash) }

// accepted: block data stored and indexed (not merely an orphan).
func (s *Sim) accepted(b *MBlock) bool {
	if b.Height == 0 {
		return true
	}
	return s.have(b) && !s.isOrphan(b)
}

// Deliver hands block b to ProcessBlock and judges the call.
func (s *Sim) Deliver(b *MBlock) {
	r := s.r
	chain := s.n.Chain
	preHave := s.have(b)
	parentAcc := s.accepted(b.Parent)
	tooNew := b.H.ts > s.adjNow()+7200
	// invalid descendants waiting in the orphan pool (their failure is reported
	// by the ProcessBlock call that resolves them)
	badOrphanBelow := false
	for _, o := range s.w.Blocks {
		if o != b && s.delivered[o] && b.IsAncestorOf(o) && !o.ChainValid() && s.isOrphan(o) {
			badOrphanBelow = true
		}
	}
	isMain, isOrph, err := chain.ProcessBlock(btcutil.NewBlock(b.Msg), blockchain.BFNone)
	res := "ok"
	if err != nil {
		res = "rule-error"
		if !isRule(err) {
			res = "internal-error"
		}
	}
	if !s.quiet {
		r.Event("deliver", "%v parent=%v class=%q mut=%q -> main=%v orphan=%v %s", b, b.Parent, b.Class, b.Mut, isMain, isOrph, res)
		r.Sig("d:" + b.Class)
	}
	// (isMainChain=false may be outdated when orphans below b made its
	// branch the best one inside the same call; true cannot be)
	if err == nil && !isOrph && isMain && !b.IsAncestorOf(s.n.Tip()) && !s.sub {
		r.Violate("C02", "views-agree", "processblock-main-flag", "ProcessBlock(%v) reported isMainChain=true but the block is not on the active chain (tip %v)", b, s.n.Tip())
	}
	if pr := s.n.prunedFn(); pr != nil && err == nil {
		// a reorganisation that attached blocks whose data the same call
		// pruned (the retention window was shorter than the branch): such a
		// node cannot rebuild its state after a crash; a limit of pruning
		// with a tiny target, not a verdict (real targets keep >= 1.5 GiB)
		nt := s.n.Tip()
		for x := nt; x != nil && x.Height > 0 && !x.IsAncestorOf(s.prevTip); x = x.Parent {
			if pr(x.Hash) {
				r.Probe("prune-deleted-a-block-being-attached")
				if s.sub {
					// (a sub-simulation, e.g. the re-delivery after a crash,
					// only gives up on itself)
					s.gaveUp = true
					return
				}
				r.Abort("pruned node attached a block whose data it had just deleted")
			}
		}
	}
	if err == nil && !isOrph {
		if s.ackCommit == nil {
			s.ackCommit = map[*MBlock]int{}
		}
		if _, ok := s.ackCommit[b]; !ok {
			s.ackCommit[b] = s.commits()
		}
	}
	if err != nil && !isRule(err) {
		var dbe database.Error
		if s.n.cfg.Prune != 0 && errors.As(err, &dbe) && dbe.ErrorCode == database.ErrBlockNotFound {
			// a pruned node cannot reorganise through block data it has
			// deleted: a limit of pruning, not a verdict on this block
			r.Probe("prune-reorg-needs-pruned-block")
			if s.sub {
				s.gaveUp = true
				return
			}
			r.Abort("pruned node asked to reorganise through pruned blocks")
		}
		r.Violate("C01", "no-internal-error", "", "ProcessBlock(%v) returned a non-rule error: %v", b, err)
	}
	switch {
	case preHave:
		if !isDup(err) && !tooNew {
			r.Violate("C01", "duplicate-rejected", "", "re-delivery of known block %v returned %v, want duplicate-block rule error", b, err)
		}
		r.Probe("redelivery")
	case b.Class == ClsSanity || tooNew:
		if !isRule(err) {
			r.Violate("C01", "invalid-rejected", "", "block %v (%s, tooNew=%v) violates a context-free rule but ProcessBlock returned err=%v orphan=%v", b, b.Reason, tooNew, err, isOrph)
		}
		s.judgedInv++
		if tooNew {
			r.Probe("timestamp-too-new-rejected")
		}
		r.Probe("invalid-judged:" + b.Class)
	case !parentAcc:
		if err != nil || !isOrph {
			r.Violate("C01", "orphan-held", "", "block %v whose parent %v is not in the index: want orphan, got main=%v orphan=%v err=%v", b, b.Parent, isMain, isOrph, err)
		}
		r.Probe("delivered-as-orphan")
		if s.orphanSince == nil {
			s.orphanSince = map[*MBlock]time.Time{}
		}
		s.orphanSince[b] = time.Now()
	case b.Class == ClsHeader || b.Class == ClsBlock:
		if !isRule(err) {
			r.Violate("C01", "invalid-rejected", "", "block %v (%s) violates a %s rule but ProcessBlock returned err=%v", b, b.Reason, b.Class, err)
		}
		s.judgedInv++
		r.Probe("invalid-judged:" + b.Class)
	case b.ChainValid() && !s.excluded(b):
		if err != nil && !(isRule(err) && badOrphanBelow) {
			detail := ""
			if len(b.Txs) > 0 && b.Parent.View != nil {
				for i, o := range b.Txs[0].Msg.TxOut {
					_, in := b.Parent.View[wire.OutPoint{Hash: b.Txs[0].Msg.TxHash(), Index: uint32(i)}]
					detail += fmt.Sprintf(" [cb out %d: %d sat script %x inParentView=%v]", i, o.Value, o.PkScript, in)
				}
			}
			r.Violate("C01", "valid-accepted", "", "valid block %v (mut=%q) on a valid chain rejected: %v%s", b, b.Mut, err, detail)
		}
		if b.Mut != "" {
			r.Probe("at-limit-accepted:" + b.Mut)
		}
	default:
		// connect-class invalid, or a descendant of an invalid block: the
		// verdict is judged from the resulting state (never in the active chain).
		if b.Class == ClsConnect {
			r.Probe("connect-invalid-delivered")
			if isRule(err) && b.Parent.ChainValid() {
				r.Probe("connect-invalid-rejected:" + b.Mut)
			}
		}
	}
	if !tooNew || preHave {
		s.delivered[b] = true
	}
	if err != nil && isRule(err) && !preHave && s.have(b) && !s.isOrphan(b) {
		// stored, then the attempt to make its branch the active chain
		// failed: the node validated the branch up to its first invalid block
		// Y and knows that Y and everything after it up to b is invalid
		if y := b.FirstInvalid(); y != nil && y.Class == ClsConnect && (y.Parent == nil || y.Parent.ChainValid()) {
			if _, _, failed, _, known := chain.VerifNodeStatus(&y.Hash); known && failed {
				if s.failedAttach == nil {
					s.failedAttach = map[*MBlock]bool{}
				}
				for z := b; z != nil && z != y.Parent; z = z.Parent {
					s.failedAttach[z] = true
				}
				r.Probe("branch-failed-validation-while-attaching")
			}
		}
	}
	if err != nil && !preHave && !s.have(b) {
		// refused and not stored (e.g. an ancestor is known invalid): the
		// node does not know the block; it can be delivered again later
		delete(s.delivered, b)
	}
	// the same for orphans waiting below b that this call resolved and
	// refused because an ancestor is (operator-)invalidated right now
	for _, o := range s.w.Blocks {
		if o != b && s.delivered[o] && b.IsAncestorOf(o) && s.excluded(o) && !s.have(o) {
			delete(s.delivered, o)
			delete(s.doubt, o)
			s.pending = append(s.pending, o)
			r.Probe("orphan-below-invalidated-branch-refused")
		}
	}
	for i, p := range s.pending {
		if p == b && (s.delivered[b] || !tooNew) {
			s.pending = append(s.pending[:i:i], s.pending[i+1:]...)
			break
		}
	}
}

// CheckState runs the cheap oracles at a quiescent point.
func (s *Sim) CheckState(where string) {
	r := s.r
	chain := s.n.Chain
	w := s.w
	if s.n.notifErr != "" {
		r.Violate("C02", "notification-stream", "", "%s", s.n.notifErr)
	}
	snap := chain.BestSnapshot()
	tip := w.ByHash[snap.Hash]
	if tip == nil {
		r.Violate("C02", "tip-known", "", "best snapshot hash %v is not a block of the world", snap.Hash)
	}
	if top := s.n.top(); top != tip {
		r.Violate("C02", "views-agree", "", "notification stream says tip %v, BestSnapshot says %v (%s)", top, tip, where)
	}
	// C01: nothing invalid in the active chain
	if bad := tip.FirstInvalid(); bad != nil {
		r.Violate("C01", "invalid-never-active", "", "active chain tip %v contains invalid block %v (%s: %s)", tip, bad, bad.Class, bad.Reason)
	}
	if s.excluded(tip) {
		r.Violate("C02", "invalidated-excluded", "", "active tip %v descends from a manually invalidated block", tip)
	}
	if snap.Height != tip.Height {
		r.Violate("C02", "views-agree", "", "snapshot height %d != %d of %v", snap.Height, tip.Height, tip)
	}
	if snap.TotalTxns != tip.CumTx {
		r.Violate("C03", "total-txns", "", "BestSnapshot.TotalTxns=%d, chain of %v has %d transactions", snap.TotalTxns, tip, tip.CumTx)
	}
	if snap.MedianTime.Unix() != tip.mtp() {
		r.Violate("C09", "median-time-past", "", "BestSnapshot.MedianTime=%d, model MTP of %v = %d", snap.MedianTime.Unix(), tip, tip.mtp())
	}
	if snap.Bits != tip.H.bits {
		r.Violate("C02", "views-agree", "", "snapshot bits %08x != %08x", snap.Bits, tip.H.bits)
	}

	// per block views + accepted-set constraints + best candidate
	var bestWork *big.Int
	var best *MBlock
	s.orphansNow = 0
	for _, b := range w.Blocks {
		onMain := b.IsAncestorOf(tip)
		if got := chain.MainChainHasBlock(&b.Hash); got != onMain {
			r.Violate("C02", "views-agree", "", "MainChainHasBlock(%v)=%v but tip is %v", b, got, tip)
		}
		h, err := chain.BlockHeightByHash(&b.Hash)
		if onMain && (err != nil || h != b.Height) {
			r.Violate("C02", "views-agree", "", "BlockHeightByHash(%v)=%d,%v want %d", b, h, err, b.Height)
		}
		if !onMain && err == nil {
			r.Violate("C02", "views-agree", "", "BlockHeightByHash(%v) succeeds for a block off the active chain", b)
		}
		if b.Height == 0 {
			continue
		}
		have := s.have(b)
		orph := have && s.isOrphan(b)
		if orph {
			s.orphansNow++
		}
		acc := have && !orph
		if !s.delivered[b] && have {
			r.Violate("C01", "undelivered-unknown", "", "HaveBlock(%v) true although the block was never delivered", b)
		}
		if b.Class == ClsSanity && have {
			r.Violate("C01", "invalid-not-stored", "", "context-free invalid block %v (%s) is known to the node", b, b.Reason)
		}
		if (b.Class == ClsHeader || b.Class == ClsBlock) && acc {
			r.Violate("C01", "invalid-not-stored", "", "block %v violating a %s rule (%s) was accepted into the index", b, b.Class, b.Reason)
		}
		if s.delivered[b] && !s.doubt[b] && b.ChainValid() && !s.excluded(b) {
			pacc := s.accepted(b.Parent)
			if pacc && !acc {
				key := ""
				if orph {
					key = "orphan-stranded"
				}
				r.Violate("C02", "valid-delivered-accepted", key, "valid block %v was delivered and its parent %v is accepted, but the block is not in the index (orphan=%v) (%s)", b, b.Parent, orph, where)
			}
			if !pacc && !orph {
				r.Violate("C02", "orphan-kept", "", "valid block %v delivered before its parent is neither accepted nor held as orphan (%s)", b, where)
			}
		}
		if acc && b.ChainValid() && !s.excluded(b) {
			if bestWork == nil || b.Work.Cmp(bestWork) > 0 {
				bestWork, best = b.Work, b
			}
		}
	}
	if bestWork == nil {
		bestWork, best = w.Blocks[0].Work, w.Blocks[0]
	}
	// C02: the tip carries the most work among fully valid accepted chains
	if tip.Work.Cmp(bestWork) < 0 {
		key := ""
		if where == "invalidate" || where == "reconsider" {
			key = "invalidate-no-fallback"
		}
		prop := "C02"
		if s.preKnown != nil && s.preKnown[best] {
			// recovered node: the better block was already stored and indexed
			// before the crash but never connected
			key = "crash-stored-block-not-activated"
			prop = "C04"
			s.stuck = best
		}
		r.Violate(prop, "most-work-valid-chain", key, "active tip %v has work %v but fully valid accepted block %v has more work %v (%s)", tip, tip.Work, best, bestWork, where)
	}
	// C02: no reorganisation without strictly more work
	if s.prevTip != nil && tip != s.prevTip && !s.prevTip.IsAncestorOf(tip) {
		if !s.excluded(s.prevTip) && tip.Work.Cmp(s.prevTip.Work) <= 0 {
			key := ""
			if where == "invalidate" || where == "reconsider" {
				key = "invalidate-tie-reorg"
			}
			r.Violate("C02", "no-reorg-without-more-work", key, "tip moved from %v (work %v) to %v (work %v) without strictly more work (%s)", s.prevTip, s.prevTip.Work, tip, tip.Work, where)
		}
		s.reorgs++
		if s.n.Pool != nil && s.n.Pool.Count() > 0 {
			s.reorgSincePoolEmpty = true
		}
		depth := 0
		for p := s.prevTip; p != nil && !p.IsAncestorOf(tip); p = p.Parent {
			depth++
		}
		if depth > s.maxReorg {
			s.maxReorg = depth
		}
		r.Probe("reorg")
		if depth >= 3 {
			r.Probe("reorg-depth>=3")
		}
	}
	s.prevTip = tip

	// height -> hash
	for h := int32(0); h <= tip.Height+1; h++ {
		hash, err := chain.BlockHashByHeight(h)
		if h > tip.Height {
			if err == nil {
				r.Violate("C02", "views-agree", "", "BlockHashByHeight(%d) succeeds beyond the tip height %d", h, tip.Height)
			}
			continue
		}
		want := tip.H.ancestor(h)
		_ = want
		var wb *MBlock
		for p := tip; p != nil; p = p.Parent {
			if p.Height == h {
				wb = p
			}
		}
		if err != nil || *hash != wb.Hash {
			r.Violate("C02", "views-agree", "", "BlockHashByHeight(%d)=%v,%v want %v", h, hash, err, wb)
		}
	}
	// chain tips
	active := 0
	for _, ct := range chain.ChainTips() {
		b := w.ByHash[ct.BlockHash]
		if b == nil {
			r.Violate("C02", "chaintips-sound", "", "ChainTips reports unknown block %v", ct.BlockHash)
		}
		switch ct.Status {
		case blockchain.StatusActive:
			active++
			if b != tip {
				r.Violate("C02", "views-agree", "", "ChainTips active tip %v != snapshot tip %v", b, tip)
			}
		case blockchain.StatusInvalid:
			if b.ChainValid() && !s.excluded(b) {
				r.Violate("C02", "chaintips-sound", "", "ChainTips marks %v invalid but it and all its ancestors are valid", b)
			}
		case blockchain.StatusValidFork:
			if !s.delivered[b] {
				r.Violate("C02", "chaintips-sound", "", "ChainTips marks %v valid-fork but its data was never delivered", b)
			}
		}
		if ct.Height != b.Height {
			r.Violate("C02", "chaintips-sound", "", "ChainTips height %d for %v", ct.Height, b)
		}
	}
	if active != 1 {
		r.Violate("C02", "views-agree", "", "ChainTips reports %d active tips", active)
	}
	r.State("tipd=%d br=%d orph=%d reorgs=%d inv=%d", tip.Height, len(chain.ChainTips()), s.orphansNow, s.reorgs, s.judgedInv)
	if s.n.Pool != nil && s.ps != nil && !s.quiet {
		s.CheckPool(where)
	}
}

// CheckUtxoLive compares the node's UTXO answers, spend journals and a block
// fetch with the model fold (perturbs the cache: see DESIGN §5 C03).
func (s *Sim) CheckUtxoLive() {
	tip := s.n.Tip()
	if m := s.n.CompareUtxo(s.n.Chain, tip); m != "" {
		s.r.Violate("C03", "utxo-equals-fold", "", "live node at tip %v: %s", tip, m)
	}
	pruned := s.n.prunedFn()
	for b := tip; b != nil && b.Height > 0; b = b.Parent {
		if pruned != nil && pruned(b.Hash) {
			s.r.Probe("main-chain-block-pruned")
			continue
		}
		blk, err := s.n.Chain.BlockByHash(&b.Hash)
		if err != nil {
			s.r.Violate("C02", "block-fetch", "", "BlockByHash(%v) on the active chain: %v", b, err)
		}
		var buf bytes.Buffer
		b.Msg.Serialize(&buf)
		got, _ := blk.Bytes()
		if !bytes.Equal(got, buf.Bytes()) {
			s.r.Violate("C02", "block-fetch", "", "BlockByHash(%v) returned different bytes", b)
		}
	}
	if m := s.n.CompareJournal(s.n.Chain, tip, s.n.prunedFn()); m != "" {
		s.r.Violate("C03", "spend-journal-equals-fold", "", "%s", m)
	}
	s.r.Count("utxo_full_comparisons", 1)
	s.r.Probe("utxo-live-compare")
}

// Advance moves the simulated clock.
func (s *Sim) Advance(d time.Duration) {
	time.Sleep(d)
	// orphans held for (almost) an hour may expire lazily from now on
	for _, b := range s.w.Blocks {
		if t, ok := s.orphanSince[b]; ok && s.delivered[b] && time.Since(t) >= 59*time.Minute && !s.accepted(b) {
			s.doubt[b] = true
		}
	}
	if !s.quiet {
		s.r.Event("advance", "%v", d)
	}
}

func fmtBlocks(bs []*MBlock) string {
	var sb bytes.Buffer
	for i, b := range bs {
		if i > 0 {
			sb.WriteByte(' ')
		}
		fmt.Fprintf(&sb, "%v", b)
	}
	return sb.String()
}

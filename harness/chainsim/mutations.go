package chainsim

import (
	"time"

	"github.com/btcsuite/btcd/chaincfg/v2"
	"github.com/btcsuite/btcd/chainhash/v2"
	"github.com/btcsuite/btcd/txscript/v2"
	"github.com/btcsuite/btcd/wire/v2"
)

func unixTime(s int64) time.Time { return time.Unix(s, 0) }

// mutation changes a block plan so that the block violates exactly one rule
// (class != "") or sits exactly at a limit (class == "": still valid).
type mutation struct {
	name   string
	class  string
	header func(bp *blockPlan)      // before bits are computed
	bits   func(bp *blockPlan)      // after required bits are computed
	txs    func(bp *blockPlan) bool // after random txs; false = not applicable
	pre    func(bp *blockPlan) bool // before coinbase assembly; false = n/a
}

var catalogue []*mutation
var catalogueByName = map[string]*mutation{}

func reg(m *mutation) {
	catalogue = append(catalogue, m)
	catalogueByName[m.name] = m
}

func mutationFor(name string) *mutation {
	if name == "" {
		return nil
	}
	m := catalogueByName[name]
	if m == nil {
		panic("unknown mutation " + name)
	}
	return m
}

// pickSpendable returns a spendable outpoint of the plan or false.
func (bp *blockPlan) pickSpendable(tag string) (wire.OutPoint, *utxoRec, bool) {
	c := bp.candidates()
	if len(c) == 0 {
		return wire.OutPoint{}, nil, false
	}
	op := c[bp.w.C.Intn(len(c), tag)]
	return op, bp.rec(op), true
}

func (bp *blockPlan) simpleSpend(op wire.OutPoint, rec *utxoRec, delta int64, mod func(p *txPlan)) *MTx {
	p := &txPlan{Version: 2, Ins: []planIn{{Op: op, Rec: rec, Seq: 0xffffffff}}}
	fee := int64(0)
	if rec.Value > 1000 {
		fee = 100
	}
	p.Outs = []*wire.TxOut{{Value: rec.Value - fee + delta, PkScript: bp.w.script(KTrue, 0)}}
	if mod != nil {
		mod(p)
	}
	t := bp.w.makeTx(p)
	bp.addTx(t, fee-delta)
	return t
}

func init() {
	// ---- sanity class -------------------------------------------------
	reg(&mutation{name: "pow-hash-above-target", class: ClsSanity, pre: func(bp *blockPlan) bool { bp.badPow = true; return true }})
	reg(&mutation{name: "merkle-mismatch", class: ClsSanity, pre: func(bp *blockPlan) bool { bp.badMerkle = true; return true }})
	reg(&mutation{name: "no-transactions", class: ClsSanity, pre: func(bp *blockPlan) bool { bp.noTx = true; return true }})
	reg(&mutation{name: "first-tx-not-coinbase", class: ClsSanity, txs: func(bp *blockPlan) bool {
		if len(bp.txs) == 0 {
			op, rec, ok := bp.pickSpendable("m-in")
			if !ok {
				return false
			}
			bp.simpleSpend(op, rec, 0, nil)
		}
		bp.reorder = func(a []*MTx) []*MTx {
			a[0], a[1] = a[1], a[0]
			return a
		}
		return true
	}})
	reg(&mutation{name: "second-coinbase", class: ClsSanity, pre: func(bp *blockPlan) bool {
		bp.reorder = func(a []*MTx) []*MTx {
			cb2 := wire.NewMsgTx(1)
			cb2.AddTxIn(&wire.TxIn{PreviousOutPoint: wire.OutPoint{Index: 0xffffffff}, SignatureScript: []byte{0x51, 0x51, 0x52}, Sequence: 0xffffffff})
			cb2.AddTxOut(&wire.TxOut{Value: 0, PkScript: []byte{txscript.OP_TRUE}})
			return append(a, &MTx{Msg: cb2, Hash: cb2.TxHash(), Coinbase: true})
		}
		return true
	}})
	reg(&mutation{name: "duplicate-tx", class: ClsSanity, txs: func(bp *blockPlan) bool {
		if len(bp.txs) == 0 {
			op, rec, ok := bp.pickSpendable("m-in")
			if !ok {
				return false
			}
			bp.simpleSpend(op, rec, 0, nil)
		}
		bp.reorder = func(a []*MTx) []*MTx { return append(a, a[len(a)-1]) }
		return true
	}})
	reg(&mutation{name: "coinbase-script-len-1", class: ClsSanity, pre: func(bp *blockPlan) bool { bp.cbScriptLen = 1; return true }})
	reg(&mutation{name: "coinbase-script-len-101", class: ClsSanity, pre: func(bp *blockPlan) bool { bp.cbScriptLen = 101; return true }})
	reg(&mutation{name: "coinbase-script-len-100", class: ClsValid, pre: func(bp *blockPlan) bool { bp.cbScriptLen = 100; return true }})
	reg(&mutation{name: "coinbase-script-len-2", class: ClsValid, pre: func(bp *blockPlan) bool {
		// only minimal when the height push is a single opcode
		if bp.height > 16 && bp.height >= bp.w.Net.BIP34 {
			return false
		}
		bp.cbScriptLen = 2
		return true
	}})
	txSanity := func(name string, mod func(p *txPlan)) {
		reg(&mutation{name: name, class: ClsSanity, txs: func(bp *blockPlan) bool {
			op, rec, ok := bp.pickSpendable("m-in")
			if !ok {
				return false
			}
			bp.simpleSpend(op, rec, 0, mod)
			return true
		}})
	}
	txSanity("tx-negative-output", func(p *txPlan) { p.Outs = append(p.Outs, &wire.TxOut{Value: -1, PkScript: []byte{txscript.OP_TRUE}}) })
	txSanity("tx-output-above-max", func(p *txPlan) {
		p.Outs = append(p.Outs, &wire.TxOut{Value: 21e14 + 1, PkScript: []byte{txscript.OP_TRUE}})
	})
	txSanity("tx-output-sum-above-max", func(p *txPlan) {
		p.Outs = append(p.Outs, &wire.TxOut{Value: 21e14, PkScript: []byte{txscript.OP_TRUE}}, &wire.TxOut{Value: 21e14, PkScript: []byte{txscript.OP_TRUE}})
	})
	txSanity("tx-duplicate-inputs", func(p *txPlan) { p.Ins = append(p.Ins, p.Ins[0]) })
	txSanity("tx-null-prevout", func(p *txPlan) {
		p.Ins = append(p.Ins, planIn{Op: wire.OutPoint{Hash: chainhash.Hash{}, Index: 0xffffffff}, Seq: 0xffffffff})
	})
	txSanity("tx-no-outputs", func(p *txPlan) { p.Outs = nil })

	// ---- header-context class ----------------------------------------
	reg(&mutation{name: "timestamp-equals-mtp", class: ClsHeader, header: func(bp *blockPlan) { bp.ts = bp.parent.mtp() }})
	reg(&mutation{name: "timestamp-mtp-plus-1", class: ClsValid, header: func(bp *blockPlan) { bp.ts = bp.parent.mtp() + 1 }})
	reg(&mutation{name: "bits-not-required", class: ClsHeader, bits: func(bp *blockPlan) {
		// a harder (smaller) but well-formed target: still satisfiable
		t, _, _ := compactToBig(bp.bits)
		t.Rsh(t, 1)
		nb := bigToCompact(t)
		if nb == bp.bits {
			nb--
		}
		bp.bits = nb
	}})
	reg(&mutation{name: "version-too-old", class: ClsHeader, header: func(bp *blockPlan) {
		n := bp.w.Net
		switch {
		case bp.height >= n.BIP65:
			bp.version = 3
		case bp.height >= n.BIP66:
			bp.version = 2
		case bp.height >= n.BIP34:
			bp.version = 1
		default:
			bp.version = 4 // nothing enforced yet: stays valid (class fixed below)
		}
	}, pre: func(bp *blockPlan) bool { return bp.version < 4 }})

	// BIP94: the first block of a retarget period may not be more than 600 s
	// older than its parent.
	timewarp := func(name, class string, back int64) {
		reg(&mutation{name: name, class: class, header: func(bp *blockPlan) {
			d := &bp.w.Net.Diff
			if d.BIP94 && bp.height%d.interval() == 0 && bp.parent.H.ts-back > bp.parent.mtp() {
				bp.ts = bp.parent.H.ts - back
				bp.flag = name
			}
		}, pre: func(bp *blockPlan) bool { return bp.flag == name }})
	}
	timewarp("bip94-timewarp", ClsHeader, 601)
	timewarp("bip94-timewarp-at-limit", ClsValid, 600)

	// ---- block-context class -----------------------------------------
	reg(&mutation{name: "bip34-wrong-height", class: ClsBlock, pre: func(bp *blockPlan) bool {
		if bp.height < bp.w.Net.BIP34 {
			return false
		}
		bp.cbHeightScript = heightScript(bp.height + 1)
		return true
	}})
	reg(&mutation{name: "bip34-non-minimal-height", class: ClsBlock, pre: func(bp *blockPlan) bool {
		if bp.height < bp.w.Net.BIP34 {
			return false
		}
		// 4-byte push of the height: decodes to the height but is not minimal
		h := bp.height
		bp.cbHeightScript = []byte{4, byte(h), byte(h >> 8), byte(h >> 16), byte(h >> 24)}
		return true
	}})
	locktime := func(name, class string, lock func(bp *blockPlan) uint32) {
		reg(&mutation{name: name, class: class, txs: func(bp *blockPlan) bool {
			op, rec, ok := bp.pickSpendable("m-in")
			if !ok || bp.height < 3 {
				return false
			}
			l := lock(bp)
			bp.simpleSpend(op, rec, 0, func(p *txPlan) { p.Lock = l; p.Ins[0].Seq = 0xfffffffe })
			return true
		}})
	}
	locktime("locktime-height-equal", ClsBlock, func(bp *blockPlan) uint32 { return uint32(bp.height) })
	locktime("locktime-height-minus-1", ClsValid, func(bp *blockPlan) uint32 { return uint32(bp.height - 1) })
	// time based: compared with MTP of the parent when CSV is active, else
	// with the block's own timestamp.
	locktime("locktime-time-equal", ClsBlock, func(bp *blockPlan) uint32 {
		if bp.csv {
			return uint32(bp.parent.mtp())
		}
		return uint32(bp.ts)
	})
	locktime("locktime-time-minus-1", ClsValid, func(bp *blockPlan) uint32 {
		if bp.csv {
			return uint32(bp.parent.mtp() - 1)
		}
		return uint32(bp.ts - 1)
	})
	witness := func(name, class, mode string) {
		reg(&mutation{name: name, class: class, txs: func(bp *blockPlan) bool {
			if !bp.segwit {
				return false
			}
			// make sure there is a witness spend in the block
			has := false
			for _, t := range bp.txs {
				has = has || t.HasWit
			}
			if !has {
				found := false
				for _, op := range bp.candidates() {
					if rec := bp.rec(op); rec.Kind == KP2WPKH {
						bp.simpleSpend(op, rec, 0, nil)
						found = true
						break
					}
				}
				if !found {
					return false
				}
			}
			bp.commitMode = mode
			return true
		}})
	}
	witness("witness-commitment-wrong", ClsBlock, "wrong")
	witness("witness-without-commitment", ClsBlock, "none")
	witness("witness-nonce-31-bytes", ClsBlock, "nonce31")
	witness("witness-commitment-with-trailing-data", ClsValid, "long")
	witness("witness-commitment-wrong-with-trailing-data", ClsBlock, "wrong-long")
	witness("witness-two-commitments-last-good", ClsValid, "two-last-good")
	witness("witness-two-commitments-last-bad", ClsBlock, "two-last-bad")

	// ---- connect class -----------------------------------------------
	reg(&mutation{name: "coinbase-value-plus-1", class: ClsConnect, pre: func(bp *blockPlan) bool { bp.cbDelta = 1; return true }})
	reg(&mutation{name: "coinbase-value-exact", class: ClsValid, pre: func(bp *blockPlan) bool { bp.cbDelta = 0; bp.cbExact = true; return true }})
	reg(&mutation{name: "missing-input", class: ClsConnect, txs: func(bp *blockPlan) bool {
		var h chainhash.Hash
		copy(h[:], bp.w.C.Bytes(32, "missing-txid"))
		h[0] |= 1
		op := wire.OutPoint{Hash: h, Index: 0}
		p := &txPlan{Version: 1, Ins: []planIn{{Op: op, Seq: 0xffffffff}}, Outs: []*wire.TxOut{{Value: 1, PkScript: []byte{txscript.OP_TRUE}}}}
		bp.addTx(bp.w.makeTx(p), 0)
		return true
	}})
	reg(&mutation{name: "spend-not-on-this-branch", class: ClsConnect, txs: func(bp *blockPlan) bool {
		// an output that exists in the world (other branch, or already spent
		// on this branch) but not in this block's view
		w := bp.w
		var cands []wire.OutPoint
		for _, op := range w.UniOrder {
			if _, ok := bp.view[op]; ok {
				continue
			}
			if _, ok := bp.created[op]; ok {
				continue
			}
			rec := w.Universe[op]
			if rec.Kind == KOpReturn || (rec.Kind == KP2WPKH && !bp.segwit) || rec.Value <= 0 || rec.Value > 21e14 {
				// (outputs of context-free invalid transactions would make
				// the spender itself context-free invalid)
				continue
			}
			cands = append(cands, op)
		}
		if len(cands) == 0 {
			return false
		}
		op := cands[w.C.Intn(len(cands), "foreign-in")]
		rec := w.Universe[op]
		p := &txPlan{Version: 1, Ins: []planIn{{Op: op, Rec: rec, Seq: 0xffffffff}}, Outs: []*wire.TxOut{{Value: rec.Value, PkScript: []byte{txscript.OP_TRUE}}}}
		bp.addTx(w.makeTx(p), 0)
		return true
	}})
	reg(&mutation{name: "double-spend-in-block", class: ClsConnect, txs: func(bp *blockPlan) bool {
		op, rec, ok := bp.pickSpendable("m-in")
		if !ok {
			return false
		}
		bp.simpleSpend(op, rec, 0, nil)
		p := &txPlan{Version: 1, Ins: []planIn{{Op: op, Rec: rec, Seq: 0xffffffff}}, Outs: []*wire.TxOut{{Value: rec.Value / 2, PkScript: bp.w.script(KP2PKH, 0)}}}
		bp.addTx(bp.w.makeTx(p), rec.Value-rec.Value/2)
		return true
	}})
	maturity := func(name, class string, off int32) {
		reg(&mutation{name: name, class: class, txs: func(bp *blockPlan) bool {
			w := bp.w
			for _, op := range w.UniOrder {
				rec, ok := bp.view[op]
				if !ok || bp.spentIn[op] || !rec.Coinbase || rec.Kind == KOpReturn || (rec.Kind == KP2WPKH && !bp.segwit) {
					continue
				}
				if bp.height-rec.Height == w.Net.Maturity+off {
					bp.simpleSpend(op, rec, 0, nil)
					return true
				}
			}
			return false
		}})
	}
	maturity("coinbase-spend-immature", ClsConnect, -1)
	maturity("coinbase-spend-at-maturity", ClsValid, 0)
	reg(&mutation{name: "outputs-exceed-inputs", class: ClsConnect, txs: func(bp *blockPlan) bool {
		op, rec, ok := bp.pickSpendable("m-in")
		if !ok {
			return false
		}
		p := &txPlan{Version: 1, Ins: []planIn{{Op: op, Rec: rec, Seq: 0xffffffff}}, Outs: []*wire.TxOut{{Value: rec.Value + 1, PkScript: []byte{txscript.OP_TRUE}}}}
		bp.addTx(bp.w.makeTx(p), -1)
		return true
	}})
	reg(&mutation{name: "bad-signature", class: ClsConnect, txs: func(bp *blockPlan) bool {
		for _, op := range bp.candidates() {
			rec := bp.rec(op)
			if rec.Kind == KP2PKH || rec.Kind == KP2WPKH {
				bp.simpleSpend(op, rec, 0, func(p *txPlan) { p.BadSig = true })
				return true
			}
		}
		return false
	}})
	// BIP68 relative height lock: input confirmed at rec.Height, lock of n
	// blocks is met when height >= rec.Height + n.
	seqlock := func(name, class string, off int32, versions ...int32) {
		reg(&mutation{name: name, class: class, txs: func(bp *blockPlan) bool {
			ver := int32(2)
			if len(versions) > 0 {
				ver = versions[bp.w.C.Intn(len(versions), "seqlock-version")]
			}
			if !bp.csv {
				return false
			}
			for _, op := range bp.candidates() {
				rec, ok := bp.view[op]
				if !ok {
					continue
				}
				n := bp.height - rec.Height + off
				if n <= 0 || n > 0xffff {
					continue
				}
				bp.simpleSpend(op, rec, 0, func(p *txPlan) { p.Version = ver; p.Ins[0].Seq = uint32(n) })
				return true
			}
			return false
		}})
	}
	// BIP68 relative time lock: n units of 512 s counted from the median time
	// past of the block BEFORE the one that confirmed the input (on this
	// block's own branch); met when that plus n*512 is at most the median
	// time past of the spending block's parent.
	timelock := func(name, class string, off int64) {
		reg(&mutation{name: name, class: class, txs: func(bp *blockPlan) bool {
			if !bp.csv {
				return false
			}
			cands := bp.candidates()
			if bp.w.C.Bool(600, "timelock-newest-first") {
				// prefer an input confirmed recently (on this very branch)
				for i, j := 0, len(cands)-1; i < j; i, j = i+1, j-1 {
					cands[i], cands[j] = cands[j], cands[i]
				}
			}
			for _, op := range cands {
				rec, ok := bp.view[op]
				if !ok || rec.Blk == nil || rec.Blk.Parent == nil {
					continue
				}
				delta := bp.parent.mtp() - rec.Blk.Parent.mtp()
				n := delta/512 + off
				if delta < 0 || n < 0 || n > 0xffff {
					continue
				}
				bp.simpleSpend(op, rec, 0, func(p *txPlan) { p.Version = 2; p.Ins[0].Seq = 1<<22 | uint32(n) })
				return true
			}
			return false
		}})
	}
	timelock("bip68-time-lock-unmet", ClsConnect, 1)
	timelock("bip68-time-lock-met", ClsValid, 0)
	seqlock("bip68-height-lock-unmet", ClsConnect, 1)
	seqlock("bip68-height-lock-met", ClsValid, 0)
	// the version field is an unsigned 32-bit number for BIP68: versions with
	// the top bit set, and versions above 2, are bound by it as well
	seqlock("bip68-height-lock-unmet-odd-version", ClsConnect, 1, 3, -1, -2147483648, 0x7fffffff)
	seqlock("bip68-height-lock-met-odd-version", ClsValid, 0, 3, -1, -2147483648, 0x7fffffff)
	// version 1 (and 0) transactions are not bound by BIP68
	seqlock("bip68-version-1-not-bound", ClsValid, 1, 1, 0)
	// the same unmet relative lock is not a rule before the CSV deployment is
	// active: the verdict must flip exactly at activation
	reg(&mutation{name: "bip68-unmet-before-csv-activation", class: ClsValid, txs: func(bp *blockPlan) bool {
		if bp.csv {
			return false
		}
		for _, op := range bp.candidates() {
			rec, ok := bp.view[op]
			if !ok {
				continue
			}
			n := bp.height - rec.Height + 1
			if n <= 0 || n > 0xffff {
				continue
			}
			bp.simpleSpend(op, rec, 0, func(p *txPlan) { p.Version = 2; p.Ins[0].Seq = uint32(n) })
			return true
		}
		return false
	}})
	// ---- script rules that start at a height or with a deployment -------
	// Inside one block an output locked by a small script is created and
	// spent.  Whether the spend is valid depends on the script flags the
	// block is validated with: CHECKLOCKTIMEVERIFY from the BIP65 height,
	// CHECKSEQUENCEVERIFY with the CSV deployment, witness programs with
	// segwit/taproot.  Before that the opcodes are NOPs and the programs are
	// anyone-can-spend: the verdict must flip exactly at activation.
	gated := func(name, class string, applies func(bp *blockPlan) bool, script func(bp *blockPlan) []byte, version int32, seq uint32, lock func(bp *blockPlan) uint32) {
		reg(&mutation{name: name, class: class, txs: func(bp *blockPlan) bool {
			if !applies(bp) {
				return false
			}
			op, rec, ok := bp.pickSpendable("m-in")
			if !ok || rec.Value < 3000 {
				return false
			}
			sc := script(bp)
			a := bp.simpleSpend(op, rec, 0, func(p *txPlan) { p.Outs[0].PkScript = sc })
			arec := &utxoRec{Value: a.Msg.TxOut[0].Value, PkScript: sc, Height: bp.height, Kind: KTrue}
			p := &txPlan{Version: version, Lock: lock(bp), Ins: []planIn{{Op: wire.OutPoint{Hash: a.Hash}, Rec: arec, Seq: seq}},
				Outs: []*wire.TxOut{{Value: arec.Value - 100, PkScript: bp.w.script(KTrue, 0)}}}
			bp.addTx(bp.w.makeTx(p), 100)
			return true
		}})
	}
	num := func(n int64, op byte) []byte {
		sc, err := txscript.NewScriptBuilder().AddInt64(n).AddOp(op).AddOp(txscript.OP_DROP).AddOp(txscript.OP_TRUE).Script()
		if err != nil {
			panic(err)
		}
		return sc
	}
	cltvOn := func(bp *blockPlan) bool { return bp.height >= bp.w.Net.BIP65 }
	cltvOff := func(bp *blockPlan) bool { return !cltvOn(bp) }
	always := func(bp *blockPlan) bool { return true }
	// the spender's lock time is height-1 (final in this block)
	lockBelow := func(bp *blockPlan) uint32 { return uint32(bp.height - 1) }
	noLock := func(bp *blockPlan) uint32 { return 0 }
	cltvAt := func(off int32) func(bp *blockPlan) []byte {
		return func(bp *blockPlan) []byte { return num(int64(bp.height-1+off), txscript.OP_CHECKLOCKTIMEVERIFY) }
	}
	gated("cltv-unmet-after-bip65", ClsConnect, cltvOn, cltvAt(1), 1, 0xfffffffe, lockBelow)
	gated("cltv-unmet-before-bip65", ClsValid, cltvOff, cltvAt(1), 1, 0xfffffffe, lockBelow)
	gated("cltv-met-exactly", ClsValid, always, cltvAt(0), 1, 0xfffffffe, lockBelow)
	// a final input (sequence 0xffffffff) defeats CLTV even when the lock time is met
	gated("cltv-final-sequence-after-bip65", ClsConnect, cltvOn, cltvAt(0), 1, 0xffffffff, lockBelow)
	csvOn := func(bp *blockPlan) bool { return bp.csv }
	csvOff := func(bp *blockPlan) bool { return !bp.csv }
	csv5 := func(bp *blockPlan) []byte { return num(5, txscript.OP_CHECKSEQUENCEVERIFY) }
	csv0 := func(bp *blockPlan) []byte { return num(0, txscript.OP_CHECKSEQUENCEVERIFY) }
	// the input's sequence has the disable bit set: no BIP68 lock, but
	// CHECKSEQUENCEVERIFY itself fails once it is a rule
	gated("csv-opcode-unmet-after-activation", ClsConnect, csvOn, csv5, 2, 0x80000004, noLock)
	gated("csv-opcode-unmet-before-activation", ClsValid, csvOff, csv5, 2, 0x80000004, noLock)
	gated("csv-opcode-met-zero", ClsValid, always, csv0, 2, 0, noLock)
	// transaction version 1 cannot satisfy CHECKSEQUENCEVERIFY
	gated("csv-opcode-version-1-after-activation", ClsConnect, csvOn, csv0, 1, 0, noLock)
	// witness programs spent with an empty witness
	segOn := func(bp *blockPlan) bool { return bp.segwit }
	segOff := func(bp *blockPlan) bool { return !bp.segwit }
	wpkh := func(bp *blockPlan) []byte { return bp.w.script(KP2WPKH, 0) }
	gated("p2wpkh-empty-witness-after-segwit", ClsConnect, segOn, wpkh, 1, 0xffffffff, noLock)
	gated("p2wpkh-anyone-can-spend-before-segwit", ClsValid, segOff, wpkh, 1, 0xffffffff, noLock)
	// (witness programs are only interpreted at all once segwit is active)
	tapOn := func(bp *blockPlan) bool { return bp.segwit && bp.w.active(bp.parent, chaincfg.DeploymentTaproot) }
	tapOff := func(bp *blockPlan) bool { return !tapOn(bp) }
	tap32 := func(bp *blockPlan) []byte {
		sc := []byte{txscript.OP_1, 32}
		sc = append(sc, bp.w.PKH[0]...)
		return append(sc, bp.w.PKH[0][:12]...)
	}
	gated("taproot-empty-witness-after-activation", ClsConnect, tapOn, tap32, 1, 0xffffffff, noLock)
	gated("taproot-anyone-can-spend-before-activation", ClsValid, tapOff, tap32, 1, 0xffffffff, noLock)

	// ---- signature-operation limits -------------------------------------
	// Legacy sigops are counted over every script of the block (x4 cost);
	// the limit is 80000 cost = 20000 legacy sigops.  The padding output is a
	// bare script of OP_CHECKMULTISIG (20 each) and OP_CHECKSIG (1 each).
	sigops := func(name, class string, total int, needWitnessIn bool) {
		reg(&mutation{name: name, class: class, txs: func(bp *blockPlan) bool {
			wit := 0
			for _, t := range bp.txs {
				for _, r := range t.InRecs {
					if r != nil && r.Kind == KP2WPKH {
						wit++
					}
				}
			}
			if needWitnessIn {
				if !bp.segwit {
					return false
				}
				if wit == 0 {
					found := false
					for _, op := range bp.candidates() {
						if rec := bp.rec(op); rec.Kind == KP2WPKH {
							bp.simpleSpend(op, rec, 0, nil)
							found = true
							break
						}
					}
					if !found {
						return false
					}
				}
			} else if wit != 0 {
				return false
			}
			bp.sigopTarget = total
			return true
		}})
	}
	sigops("sigops-at-limit", ClsValid, 20000, false)
	sigops("sigops-one-over-limit", ClsSanity, 20001, false)
	// exactly at the legacy limit plus one witness sigop: only the precise
	// cost computed at connect time exceeds the limit
	sigops("sigop-cost-over-via-witness-input", ClsConnect, 20000, true)

	// ---- block size ------------------------------------------------------
	reg(&mutation{name: "block-base-size-at-limit", class: ClsValid, pre: func(bp *blockPlan) bool {
		for _, t := range bp.txs {
			if t.HasWit {
				return false
			}
		}
		bp.sizeTarget = 1000000
		return true
	}})
	reg(&mutation{name: "block-base-size-one-over", class: ClsSanity, pre: func(bp *blockPlan) bool {
		for _, t := range bp.txs {
			if t.HasWit {
				return false
			}
		}
		bp.sizeTarget = 1000001
		return true
	}})

	// ---- BIP30 (networks without BIP34 only) -----------------------------
	bip30 := func(name, class string, wantSpent bool) {
		reg(&mutation{name: name, class: class, pre: func(bp *blockPlan) bool {
			if bp.height >= bp.w.Net.BIP34 || bp.parent.View == nil {
				return false
			}
			for _, t := range bp.txs {
				if t.HasWit {
					return false
				}
			}
			sub := subsidyAt(bp.height, bp.w.Net.SubsidyInterval)
			for a := bp.parent; a != nil && a.Height > 0; a = a.Parent {
				cb := a.Txs[0].Msg
				if len(cb.TxIn[0].Witness) != 0 || cb.SerializeSize() > 400 {
					// (not a coinbase padded for a size or sigop limit case:
					// its copy would push this block over those limits)
					continue
				}
				var val int64
				unspent, spendable := 0, 0
				for i, o := range cb.TxOut {
					val += o.Value
					if unspendable(o.PkScript) {
						continue
					}
					spendable++
					// (judged against the state BEFORE this block: an output
					// spent by this very block still counts as unspent)
					if _, ok := bp.view[wire.OutPoint{Hash: a.Txs[0].Hash, Index: uint32(i)}]; ok {
						unspent++
					}
				}
				if val > sub || spendable == 0 {
					continue
				}
				if (wantSpent && unspent == 0) || (!wantSpent && unspent > 0) {
					bp.cbClone = cb.Copy()
					return true
				}
			}
			return false
		}})
	}
	bip30("bip30-overwrite-unspent-coinbase", ClsConnect, false)
	bip30("bip30-recreate-fully-spent-coinbase", ClsValid, true)
	_ = chaincfg.DeploymentCSV
}

// mutation names by validity, for the generator.
func invalidMutations() []string {
	var out []string
	for _, m := range catalogue {
		if m.class != ClsValid {
			out = append(out, m.name)
		}
	}
	return out
}

func limitMutations() []string {
	var out []string
	for _, m := range catalogue {
		if m.class == ClsValid {
			out = append(out, m.name)
		}
	}
	return out
}

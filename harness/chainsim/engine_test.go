//go:debug randseednop=0
package chainsim

import (
	"fmt"
	"math/big"
	"math/rand"
	"os"
	"strings"
	"testing"
	"testing/cryptotest"
	"time"

	"github.com/btcsuite/btcd/blockchain"
	"github.com/btcsuite/btcd/chaincfg/v2"

	"github.com/btcsuite/btcd/btcutil/v2"
	"github.com/btcsuite/btcd/mempool"
	"github.com/btcsuite/btcd/mining"

	"verif/harness/simkit"
)

func TestWorker(t *testing.T) {
	simkit.WorkerMain(t, simkit.Options{
		Engine: "chainsim",
		Real: []string{"blockchain (validation, chain selection, UTXO cache, block index, notifications)", "txscript", "wire", "btcutil", "chaincfg", "btcec",
			"database/ffldb + goleveldb"},
		Stub: []string{"block/transaction producers (reference world)", "disk (scratch directory)"},
	}, run)
}

const epoch2024 = 1704067200

var profilesFor = map[string][]string{
	"C01": {"consensus", "consensus", "consensus", "consensus", "retarget", "votes"},
	"C02": {"selection", "selection", "selection", "selection", "retarget"},
	"C03": {"utxo"},
	"C04": {"crash"},
	"C09": {"retarget"},
	"C14": {"votes"},
	"C10": {"pool"},
	"C12": {"pool"},
	"C17": {"headers"},
}

func drawNet(r *simkit.Run, prof string) *NetCfg {
	c := r.C
	lim := new(big.Int).Sub(new(big.Int).Lsh(big.NewInt(1), 255), big.NewInt(1))
	n := &NetCfg{
		Name: "verifnet", Net: 0xfabf0001,
		Diff:            DiffCfg{NoRetarget: true, PowLimit: lim, PowLimitBits: 0x207fffff, TimespanS: 14 * 24 * 3600, SpacingS: 600, Factor: 4, MinDiffTimeS: 1200},
		Maturity:        int32(simkit.Range(c, 1, 6, "maturity")),
		BIP34:           int32(simkit.Range(c, 1, 4, "bip34")),
		BIP65:           int32(simkit.Range(c, 1, 10, "bip65")),
		BIP66:           int32(simkit.Range(c, 1, 4, "bip66")),
		SubsidyInterval: []int32{150, 10, 3}[c.Intn(3, "halving")],
		Window:          8, Threshold: 6,
	}
	poolRetarget := prof == "pool" && r.Property == "C12" && c.Bool(250, "pool-retarget")
	if prof == "retarget" || (prof == "headers" && c.Bool(300, "hdr-retarget")) || poolRetarget {
		// synthetic difficulty parameters: short retarget interval, clamps,
		// testnet min-difficulty rule, BIP94, or a no-retarget network
		d := &n.Diff
		d.NoRetarget = c.Bool(100, "no-retarget")
		iv := int64(simkit.Range(c, 3, 12, "retarget-interval"))
		d.SpacingS = []int64{600, 120, 60}[c.Intn(3, "spacing")]
		d.TimespanS = iv * d.SpacingS
		d.Factor = int64(simkit.Range(c, 2, 4, "factor"))
		d.ReduceMinDiff = c.Bool(400, "min-diff-rule")
		d.MinDiffTimeS = 2 * d.SpacingS
		d.BIP94 = c.Bool(400, "bip94")
		if c.Bool(300, "lower-pow-limit") {
			sh := uint(simkit.Range(c, 1, 6, "pow-limit-shift"))
			d.PowLimit = new(big.Int).Rsh(lim, sh)
			d.PowLimitBits = bigToCompact(d.PowLimit)
			d.PowLimit, _, _ = compactToBig(d.PowLimitBits)
		}
		n.SubsidyInterval = []int32{150, 10, 3, 1}[c.Intn(4, "halving2")]
		if poolRetarget {
			// templates on a network whose required difficulty depends on
			// the block's own time (the testnet 20-minute rule), mostly
			d.NoRetarget = false
			d.ReduceMinDiff = !c.Bool(200, "pool-no-min-diff-rule")
			n.SubsidyInterval = 150
		}
	}
	if (prof == "consensus" || prof == "utxo") && c.Bool(150, "pre-bip34-network") {
		// a network on which BIP34/65/66 never activate during the run:
		// duplicate coinbases (BIP30) become possible
		n.BIP34, n.BIP65, n.BIP66 = 1000000, 1000000, 1000000
	}
	act := uint32(1)
	if c.Bool(250, "late-activation") {
		act = uint32(simkit.Range(c, 2, 12, "act-height"))
	}
	n.Deps[chaincfg.DeploymentTestDummy] = DepCfg{Bit: 28}
	n.Deps[chaincfg.DeploymentTestDummyMinActivation] = DepCfg{Bit: 22, Custom: 4, MinAct: 20}
	n.Deps[chaincfg.DeploymentTestDummyAlwaysActive] = DepCfg{Bit: 30, AlwaysActive: 1}
	n.Deps[chaincfg.DeploymentCSV] = DepCfg{Bit: 0, AlwaysActive: act}
	n.Deps[chaincfg.DeploymentSegwit] = DepCfg{Bit: 1, AlwaysActive: act}
	n.Deps[chaincfg.DeploymentTaproot] = DepCfg{Bit: 2, AlwaysActive: act}
	return n
}

func run(r *simkit.Run) {
	c := r.C
	profs := profilesFor[r.Property]
	if len(profs) == 0 {
		profs = []string{"consensus"}
	}
	prof := profs[c.Intn(len(profs), "profile")]
	r.Meta["profile"] = prof
	r.Sig("p:" + prof)
	rand.Seed(int64(r.Seed))
	cryptotest.SetGlobalRandom(r.T, r.Seed)

	// jump to the run's epoch before anything that owns timers exists
	start := int64(epoch2024 + c.Intn(1000, "epoch-off")*3600)
	time.Sleep(time.Until(time.Unix(start, 0)))
	r.MarkEpoch()

	net := drawNet(r, prof)
	net.GenesisTs = start - []int64{1800, 5 * 3600, 3 * 86400}[c.Intn(3, "genesis-age")]
	if prof == "pool" {
		// mostly a chain whose tip is recent ("current"), sometimes an old one
		net.GenesisTs = start - []int64{1800, 1800, 5 * 3600, 1800, 5 * 3600, 3 * 86400}[c.Intn(6, "genesis-age-pool")]
	}
	if prof == "votes" {
		drawVoteDeployments(r, net, net.GenesisTs)
	}
	w := NewWorld(r, net)
	cfg := NodeCfg{
		UtxoCacheMax: []uint64{0, 2000, 200000, 100 << 20}[c.Intn(4, "utxo-cache")],
		SigCache:     c.Bool(500, "sigcache"),
		HashCache:    c.Bool(500, "hashcache"),
	}
	if prof == "pool" {
		// the mempool and the template generator require both caches (as in server.go)
		cfg.SigCache, cfg.HashCache = true, true
		cfg.Pool = &mempool.Policy{
			MaxTxVersion:         2,
			DisableRelayPriority: c.Bool(600, "no-relay-priority"),
			AcceptNonStd:         true,
			FreeTxRelayLimit:     []float64{15.0, 0, 0.1}[c.Intn(3, "free-limit")],
			MaxOrphanTxs:         []int{100, 2, 5}[c.Intn(3, "max-orphans")],
			MaxOrphanTxSize:      []int{100000, 300}[c.Intn(2, "max-orphan-size")],
			MaxSigOpCostPerTx:    blockchain.MaxBlockSigOpsCost / 4,
			MinRelayTxFee:        btcutil.Amount([]int64{1000, 10, 5000}[c.Intn(3, "min-relay-fee")]),
			RejectReplacement:    c.Bool(150, "reject-replacement"),
		}
		cfg.Mining = mining.Policy{
			BlockMinWeight:    uint32([]int{0, 2000, 400000}[c.Intn(3, "min-weight")]),
			BlockMaxWeight:    uint32([]int{4000000 - 4000, 3000000, 6000, 1200 + c.Intn(6000, "max-weight-fine"), 1200 + c.Intn(2500, "max-weight-finer"), 9000 + c.Intn(20000, "max-weight-mid")}[c.Intn(6, "max-weight")]),
			BlockMinSize:      0,
			BlockMaxSize:      uint32([]int{1000000 - 1000, 750000}[c.Intn(2, "max-size")]),
			BlockPrioritySize: uint32([]int{0, 50000, 2000}[c.Intn(3, "prio-size")]),
			TxMinFreeFee:      cfg.Pool.MinRelayTxFee,
		}
		r.Meta["min_relay_fee"] = fmt.Sprint(cfg.Pool.MinRelayTxFee)
		r.Meta["max_orphans"] = fmt.Sprint(cfg.Pool.MaxOrphanTxs)
	}
	if prof == "crash" && c.Bool(300, "disk-crash") {
		// configuration (B): real ffldb + goleveldb on the simulated disk
		runDiskCrash(r, w, cfg)
		return
	}
	r.Meta["utxo_cache"] = fmt.Sprint(cfg.UtxoCacheMax)
	r.Meta["maturity"] = fmt.Sprint(net.Maturity)
	maxFile := uint32(0)
	if (prof == "utxo" || prof == "crash") && (c.Bool(200, "prune") || os.Getenv("VERIF_FORCE_PRUNE") != "") {
		// a pruned node: small emulated block files, a target of a few
		// files; forks stay shallow (see pickParent) because a pruned node
		// cannot reorganise through block data it has deleted
		maxFile = []uint32{800, 1500, 3000, 6000}[c.Intn(4, "prune-file-size")]
		cfg.Prune = uint64(maxFile) * uint64(simkit.Range(c, 3, 6, "prune-files"))
		r.Meta["prune"] = fmt.Sprintf("file=%d target=%d", maxFile, cfg.Prune)
		r.Sig("prune")
	}
	var store Store = newMemStore(maxFile)
	if os.Getenv("VERIF_CHAINSIM_DISK") != "" {
		store = newDiskStore(net.Net)
	}
	defer store.Destroy()
	n := NewNode(r, w, cfg, store)
	if err := n.Open(); err != nil {
		panic(err)
	}
	defer func() {
		if n.db != nil {
			n.db.Close()
		}
	}()
	s := &Sim{r: r, w: w, n: n, prof: prof, delivered: map[*MBlock]bool{}, doubt: map[*MBlock]bool{}, manualInv: map[*MBlock]bool{}}
	n.onTip = func(t *MBlock) { s.announced = append(s.announced, announce{s.commits(), t}) }
	s.resetHeaders()
	if n.Pool != nil {
		s.ps = newPoolState()
	}
	s.CheckState("genesis")
	if prof == "pool" && os.Getenv("VERIF_CHAINSIM_MODE") == "poolrace" {
		r.Meta["mode"] = "poolrace"
		r.Sig("poolrace")
		s.runPoolRace()
		return
	}

	if prof == "pool" && net.Diff.NoRetarget && c.Bool(60, "tall-chain") {
		// templates at heights whose serialized number needs a sign pad
		// byte (128..255) or a second byte
		n := 124 + c.Intn(8, "tall-n")
		s.quiet = true
		for i := 0; i < n; i++ {
			b := w.Build(n0tip(s), BlockOpts{})
			s.ensureClock(b)
			s.Deliver(b)
		}
		s.quiet = false
		s.CheckState("tall-chain")
		r.Probe("tall-chain")
		r.Sig("tall")
	}

	// profile weights
	pMut, pLimit, pOOO := 120, 80, 150 // permille: invalid mutant, at-limit variant, out-of-order delivery
	maxTx := 3
	switch prof {
	case "consensus":
		pMut, pLimit = 300, 200
	case "selection":
		pMut, pOOO = 150, 300
		maxTx = 1
	case "utxo":
		pMut, pLimit = 80, 100
		maxTx = 6
	case "crash":
		pMut, pLimit = 100, 60
		maxTx = 4
	case "headers":
		pMut, pLimit, pOOO = 120, 40, 250
		maxTx = 1
	case "retarget":
		pMut, pLimit = 150, 100
		maxTx = 1
	case "votes":
		pMut, pLimit, pOOO = 60, 120, 100
		maxTx = 2
	case "pool":
		pMut, pLimit, pOOO = 60, 40, 100
		maxTx = 3
	}
	steps := simkit.Range(c, 15, 70, "steps")
	if prof == "headers" {
		steps = simkit.Range(c, 30, 160, "steps")
	}
	if prof == "votes" {
		steps = simkit.Range(c, 40, 160, "steps")
	}
	if prof == "crash" {
		steps = simkit.Range(c, 8, 40, "steps")
		if cfg.Prune != 0 {
			// enough blocks for the prune target to be reached
			steps = simkit.Range(c, 25, 60, "steps-pruned")
		}
	}
	invMuts, limMuts := invalidMutations(), limitMutations()

	for i := 0; i < steps; i++ {
		wInv := 0
		if prof == "selection" {
			wInv = 5
		}
		if prof == "headers" {
			wInv = 2
		}
		if os.Getenv("VERIF_MODE") == "determinism" {
			// after an invalidation several equally heavy candidates can be
			// left and the node picks among them in map order (a tie, DESIGN
			// §1.4): such runs are judged but not part of the replay claim
			wInv = 0
		}
		wHdr, wQry, wAri := 0, 0, 0
		switch prof {
		case "headers":
			wHdr, wQry, wAri = 35, 8, 1
		case "retarget":
			wHdr, wQry, wAri = 10, 1, 8
		case "selection", "consensus", "crash", "utxo":
			// headers-first deliveries are part of every delivery sequence
			wHdr = 8
		}
		wVote := 0
		if prof == "votes" {
			wVote, wHdr = 15, 5
		}
		wMine, wDeliver := 40, 40
		wSub, wUns, wRem, wPM, wTm, wMin := 0, 0, 0, 0, 0, 0
		if prof == "pool" {
			wMine, wDeliver = 12, 14
			wSub, wUns, wRem, wPM, wTm, wMin = 60, 10, 6, 8, 5, 4
			if r.Property == "C12" {
				wTm, wPM = 14, 4
			}
		}
		wClone := 0
		if prof == "utxo" || prof == "crash" {
			wClone = 5
		}
		wBurst := 0
		switch prof {
		case "consensus", "selection", "utxo", "crash":
			wBurst = 3
		case "votes", "headers":
			// (votes: branches on either side of a window boundary can be
			// in different deployment states; headers: a header on top of a
			// branch that failed while being attached)
			wBurst = 2
		}
		if cfg.Prune != 0 {
			wBurst = 0 // (forks stay shallow on a pruned node)
		}
		wNest := 0
		if prof == "headers" && os.Getenv("VERIF_MODE") != "determinism" {
			wNest = 2
		}
		ev := simkit.Pick(c, "event", wMine, wDeliver, 4, 4, 3, 3, 4, 2, wInv, wInv, wHdr, wQry, wAri, wVote, wSub, wUns, wRem, wPM, wTm, wMin, wClone, wBurst, wNest)
		switch ev {
		case 22:
			// nested invalidations on a side branch a <- b <- c: first the
			// tip c, then a; afterwards a header on top of b must be refused
			var tipc *MBlock
			for _, x := range w.Blocks[1:] {
				if len(x.Children) == 0 && x.Height >= 3 && s.accepted(x) && !x.IsAncestorOf(s.n.Tip()) && x.ChainValid() && !s.excluded(x) &&
					!x.Parent.IsAncestorOf(s.n.Tip()) && !x.Parent.Parent.IsAncestorOf(s.n.Tip()) && s.accepted(x.Parent) && s.accepted(x.Parent.Parent) {
					tipc = x
				}
			}
			if tipc == nil {
				continue
			}
			bmid, a := tipc.Parent, tipc.Parent.Parent
			s.invalidate(tipc)
			s.invalidate(a)
			d := w.Build(bmid, BlockOpts{})
			r.Event("mine", "%v on %v (header on the middle of a twice-invalidated branch)", d, bmid)
			s.DeliverHeader(d)
			s.CheckState("header")
			r.Probe("nested-invalidation-scenario")
		case 21:
			// a branch that forks below the best block and overtakes it only
			// with its last block: every block but the last is stored as a
			// side-chain block and all of them are validated inside one
			// reorganisation, against the branch's own ancestry
			best := s.pickBest()
			depth := simkit.Range(c, 1, 4, "burst-depth")
			fork := best
			for i := 0; i < depth && fork.Parent != nil; i++ {
				fork = fork.Parent
			}
			n := int(best.Height-fork.Height) + 1
			parent := fork
			var sawBad *MBlock
			r.Probe("overtaking-branch")
			for i := 0; i < n; i++ {
				o := BlockOpts{NTx: c.Intn(maxTx+1, "ntx")}
				if i >= 2 || i == n-1 {
					if c.Bool(pMut, "mutant") {
						o.Mut = invMuts[c.Intn(len(invMuts), "which-mut")]
					} else if c.Bool(2*pLimit+100, "limit") {
						o.Mut = limMuts[c.Intn(len(limMuts), "which-limit")]
					}
				}
				b := w.Build(parent, o)
				r.Event("mine", "%v on %v mut=%q class=%q txs=%d (overtaking branch %d/%d)", b, parent, b.Mut, b.Class, len(b.Txs), i+1, n)
				s.pending = append(s.pending, b)
				s.deliverWithClock(b)
				s.CheckState("deliver")
				if b.Class != ClsValid {
					if b.Class == ClsConnect && i < n-1 && sawBad == nil && c.Bool(600, "burst-past-invalid") {
						// keep building on the block that will fail when the
						// branch is attached: its descendants are part of
						// the same failed attempt
						sawBad = b
						parent = b
						continue
					}
					break
				}
				parent = b
			}
			if sawBad != nil && parent != sawBad && s.have(parent) {
				// a header on top of the branch that failed validation
				d := w.Build(parent, BlockOpts{})
				r.Probe("header-after-failed-attach-scenario")
				r.Event("mine", "%v on %v (header on a branch that failed while attaching)", d, parent)
				s.DeliverHeader(d)
				s.CheckState("header")
			}
		case 20:
			s.CloneCompare(c.Bool(500, "clone-flush-first"))
		case 14: // submit a new transaction
			var t *MTx
			switch k := simkit.Pick(c, "ptx-kind", 50, 25, 15, 10, 8, 5, 2, 2, 3, 3); k {
			case 9:
				// many witness transactions, then a template: the weight of
				// every one of them (marker, flag, witness) counts
				s.preferWitness = true
				nw := 0
				for j := 0; j < 16; j++ {
					if t := s.buildPoolTx(0); t != nil {
						s.Submit(t, 0)
						nw++
					}
				}
				s.preferWitness = false
				nw += s.witnessFan(simkit.Range(c, 8, 56, "wit-fan"))
				if nw > 0 {
					r.Probe("witness-transaction-burst")
					s.CheckPool("submit")
					s.CheckTemplate()
				}
				continue
			case 8:
				s.disconnectScenario()
				continue
			case 7:
				// more orphans than the orphan pool holds, then all the
				// parents: evicted orphans must be gone for good
				max := cfg.Pool.MaxOrphanTxs
				if max > 5 || os.Getenv("VERIF_MODE") == "determinism" {
					// (which orphan a full pool evicts is decided by Go's
					// random map iteration inside the mempool: such runs are
					// judged but not part of the replay claim, DESIGN 1.4)
					continue
				}
				n := max + 1 + c.Intn(3, "flood-extra")
				for j := 0; j < n; j++ {
					if o := s.buildPoolTx(3); o != nil {
						s.Submit(o, 0)
					}
				}
				r.Probe("orphan-flood")
				for len(s.ps.unsent) > 0 {
					par := s.ps.unsent[0]
					s.ps.unsent = s.ps.unsent[1:]
					s.Submit(par, 0)
				}
				s.CheckPool("orphan-flood")
				continue
			case 6:
				// two clusters that together sit around the eviction limit
				s.evictionLimitScenario()
				continue
			case 4:
				t = s.buildTargetedReplacement()
			case 5:
				// a burst of sigop-heavy transactions (4 of them reach the
				// block's sigop cost limit)
				s.heavySigops = true
				for j := 0; j < 4; j++ {
					if h := s.buildPoolTx(0); h != nil {
						s.Submit(h, 0)
					}
				}
				s.heavySigops = false
				s.CheckPool("submit")
				if c.Bool(600, "template-after-heavy-burst") {
					s.CheckTemplate()
				}
				continue
			default:
				t = s.buildPoolTx(k)
			}
			if t == nil {
				continue
			}
			s.Submit(t, simkit.Pick(c, "submit-api", 60, 10, 20, 10))
			s.CheckPool("submit")
		case 15: // submit a parent that was held back (resolves orphans), or re-submit anything
			var t *MTx
			if len(s.ps.unsent) > 0 && c.Bool(800, "send-unsent") {
				i := c.Intn(len(s.ps.unsent), "which-unsent")
				t = s.ps.unsent[i]
				s.ps.unsent = append(s.ps.unsent[:i:i], s.ps.unsent[i+1:]...)
			} else if len(w.AllTxOrder) > 0 {
				t = w.AllTxOrder[c.Intn(len(w.AllTxOrder), "resubmit")]
			}
			if t == nil {
				continue
			}
			s.Submit(t, simkit.Pick(c, "submit-api", 60, 10, 20, 10))
			s.CheckPool("submit")
		case 16: // removal entry points
			if len(w.AllTxOrder) == 0 {
				continue
			}
			t := w.AllTxOrder[c.Intn(len(w.AllTxOrder), "remove-which")]
			btx := btcutil.NewTx(t.Msg)
			op := simkit.Pick(c, "remove-op", 3, 3, 2, 1, 2)
			switch op {
			case 0:
				n.Pool.RemoveTransaction(btx, true)
			case 1:
				n.Pool.RemoveDoubleSpends(btx)
			case 2:
				n.Pool.RemoveOrphan(btx)
			case 3:
				n.Pool.RemoveOrphansByTag(mempool.Tag(c.Intn(3, "tag")))
			case 4:
				if n.Pool.IsTransactionInPool(&t.Hash) {
					n.Pool.ProcessOrphans(btx)
				}
			}
			r.Event("pool-remove", "op=%d tx=%s", op, t.Hash.String()[:8])
			r.Sig(fmt.Sprintf("rm%d", op))
			s.CheckPool("remove")
		case 17: // mine a block from the pooled set with the harness's own builder
			blk, txs := s.CheckMinable()
			if blk == nil {
				continue
			}
			b := w.Build(s.n.Tip(), BlockOpts{Txs: txs, TsAbs: s.adjNow()})
			r.Event("mine-from-pool", "%v with %d pooled txs", b, len(txs))
			s.ps.minedFrom++
			s.Deliver(b)
			s.CheckState("connect")
			if s.n.Tip() == b {
				for _, t := range txs {
					if n.Pool.IsTransactionInPool(&t.Hash) {
						r.Violate("C10", "confirmed-leave-pool", "", "after connecting %v, its transaction %s is still pooled", b, t.Hash.String()[:8])
					}
				}
			}
		case 18:
			s.CheckTemplate()
		case 19:
			s.CheckMinable()
		case 13:
			s.CheckVotes()
		case 10: // deliver a header (usually parent first, sometimes any)
			var cands []*MBlock
			for _, b := range w.Blocks[1:] {
				if !s.nodeKnown(b) && (s.nodeKnown(b.Parent) || c.Bool(100, "orphan-header")) {
					cands = append(cands, b)
				}
			}
			if len(cands) == 0 || c.Bool(100, "known-header") {
				cands = w.Blocks[1:]
			}
			if len(cands) == 0 {
				continue
			}
			b := cands[c.Intn(len(cands), "which-header")]
			if b.H.ts > s.adjNow()+7200 && !c.Bool(150, "header-too-new") {
				s.ensureClock(b)
			}
			s.DeliverHeader(b)
			s.CheckState("header")
		case 11:
			s.CheckQueries()
		case 12:
			s.CheckArith()
		case 8: // invalidate a delivered block
			var cands []*MBlock
			for _, b := range w.Blocks[1:] {
				// (invalidating a block that is already excluded through an
				// ancestor, or reconsidering one that is only excluded
				// through an ancestor, has no agreed meaning: not generated)
				if s.accepted(b) && !s.excluded(b) {
					cands = append(cands, b)
				}
			}
			if len(cands) == 0 {
				continue
			}
			s.invalidate(cands[c.Intn(len(cands), "invalidate")])
		case 9: // reconsider
			var cands []*MBlock
			for _, b := range w.Blocks[1:] {
				if s.manualInv[b] {
					cands = append(cands, b)
				}
			}
			if len(cands) == 0 {
				continue
			}
			b := cands[c.Intn(len(cands), "reconsider")]
			err := n.Chain.ReconsiderBlock(&b.Hash)
			// the block itself is a candidate again (descendants that were
			// invalidated separately, and invalidated ancestors, stay excluded)
			delete(s.manualInv, b)
			for _, d := range w.Blocks[1:] {
				if b.IsAncestorOf(d) {
					delete(s.markedInvalid, d)
					delete(s.failedAttach, d)
				}
			}
			r.Event("reconsider", "%v err=%v", b, err != nil)
			r.Sig("reconsider")
			r.Probe("reconsider")
			if err != nil && !isRule(err) {
				r.Violate("C02", "reconsider-error", "reconsider-returns-internal-error", "ReconsiderBlock(%v): %v", b, err)
			}
			s.CheckState("reconsider")
		case 0: // mine a block somewhere
			parent := s.pickParent()
			o := BlockOpts{NTx: c.Intn(maxTx+1, "ntx")}
			if prof == "retarget" || prof == "headers" || !w.Net.Diff.NoRetarget {
				o.TsDelta = s.steerTimestamp(parent)
			}
			if prof == "votes" {
				top := uint32(0x20000000)
				if c.Bool(60, "wrong-top-bits") {
					top = 0x40000000
				}
				o.Version = int32(top | s.voteMask())
			}
			if c.Bool(pMut, "mutant") {
				o.Mut = invMuts[c.Intn(len(invMuts), "which-mut")]
			} else if c.Bool(pLimit, "limit") {
				o.Mut = limMuts[c.Intn(len(limMuts), "which-limit")]
			}
			if w.Net.BIP34 > 100000 && c.Bool(250, "bip30-bias") {
				// a network on which coinbases can legitimately repeat:
				// re-created (and later re-spent) outpoints are the point
				o.Mut = []string{"bip30-recreate-fully-spent-coinbase", "bip30-recreate-fully-spent-coinbase", "bip30-overwrite-unspent-coinbase"}[c.Intn(3, "bip30-which")]
			}
			if cfg.Prune != 0 && (strings.HasPrefix(o.Mut, "block-base-size") || strings.HasPrefix(o.Mut, "sigop")) {
				// blocks of a megabyte do not fit the small emulated block files
				o.Mut = ""
			}
			b := w.Build(parent, o)
			r.Event("mine", "%v on %v mut=%q class=%q txs=%d", b, parent, b.Mut, b.Class, len(b.Txs))
			s.pending = append(s.pending, b)
			if c.Bool(700, "deliver-now") {
				s.deliverWithClock(b)
				s.CheckState("deliver")
			}
		case 1: // deliver something pending
			if len(s.pending) == 0 {
				continue
			}
			var b *MBlock
			if c.Bool(pOOO, "out-of-order") {
				b = s.pending[c.Intn(len(s.pending), "which-pending")]
				r.Probe("out-of-order-pick")
			} else {
				b = s.pending[0]
			}
			s.deliverWithClock(b)
			s.CheckState("deliver")
		case 2: // re-deliver
			if len(w.Blocks) < 2 {
				continue
			}
			b := w.Blocks[1+c.Intn(len(w.Blocks)-1, "redeliver")]
			if !s.delivered[b] {
				continue
			}
			s.Deliver(b)
			s.CheckState("redeliver")
		case 3: // restart
			clean := c.Bool(500, "clean")
			var err error
			if clean {
				err = n.CloseClean()
			} else {
				err = n.CloseAbandon()
				r.Fault("restart_without_utxo_flush")
			}
			if err != nil {
				r.Violate("C04", "close", "", "closing the node: %v", err)
			}
			// orphans live in memory only
			for _, b := range w.Blocks {
				if s.delivered[b] && !b.IsAncestorOf(s.prevTip) {
					// may have been an orphan: re-derive from the node after reopen
					s.doubt[b] = true
				}
			}
			if err := n.Open(); err != nil {
				which := ""
				for _, b := range w.Blocks {
					if strings.Contains(err.Error(), b.Hash.String()) {
						which = fmt.Sprintf(" (the block is %v; last tip %v)", b, s.prevTip)
					}
				}
				r.Violate("C04", "reopen", "", "reopening the node after a %s shutdown: %v%s", map[bool]string{true: "clean", false: "no-flush"}[clean], err, which)
			}
			for _, b := range w.Blocks {
				if !s.doubt[b] {
					continue
				}
				if s.accepted(b) {
					delete(s.doubt, b)
				} else {
					// forgotten orphan: as if never delivered
					delete(s.delivered, b)
					delete(s.doubt, b)
					s.pending = append(s.pending, b)
				}
			}
			s.restarts++
			s.resetHeaders()
			if n.Pool != nil {
				// the mempool is not persisted
				s.ps = newPoolState()
				s.reorgSincePoolEmpty = false
			}
			r.Event("restart", "clean=%v tip=%v", clean, n.Tip())
			r.Sig(fmt.Sprintf("restart:%v", clean))
			s.CheckState("restart")
			if prof == "votes" {
				s.CheckVotes()
			}
			s.CheckUtxoLive()
		case 4: // flush
			mode := []blockchain.FlushMode{blockchain.FlushRequired, blockchain.FlushPeriodic, blockchain.FlushIfNeeded}[c.Intn(3, "flush-mode")]
			if err := n.Chain.FlushUtxoCache(mode); err != nil {
				r.Violate("C03", "flush", "", "FlushUtxoCache(%v): %v", mode, err)
			}
			r.Event("flush", "mode=%d", mode)
			r.Sig("flush")
		case 5: // advance the clock
			d := []time.Duration{time.Second, time.Minute, 6 * time.Minute, 61 * time.Minute, 25 * time.Hour}[c.Intn(5, "advance")]
			s.Advance(d)
		case 6: // full UTXO comparison on the live node
			s.CheckUtxoLive()
		case 7: // time sample from a skewed peer
			skew := time.Duration(c.Intn(141, "skew")-70) * time.Minute
			n.Time.AddTimeSample(fmt.Sprintf("peer%d", i), time.Now().Add(skew))
			r.Event("timesample", "skew=%v offset=%v", skew, n.Time.Offset())
			r.Fault("clock_skew_sample")
		}
	}
	// end of run: deliver everything that is still pending, parents first,
	// and re-deliver doubtful orphans; then the final checks.
	for pass := 0; pass < 2; pass++ {
		for _, b := range w.Blocks[1:] {
			if !s.delivered[b] || s.doubt[b] {
				s.ensureClock(b)
				delete(s.doubt, b)
				s.Deliver(b)
				s.CheckState("final-delivery")
			}
		}
	}
	s.CheckState("final")
	s.CheckUtxoLive()
	if prof == "votes" {
		s.CheckVotes()
	}
	if prof == "headers" || prof == "retarget" {
		s.CheckQueries()
		s.CheckArith()
	}
	if prof == "crash" {
		s.crashEnumerate()
	}
	if s.reorgs > 0 || s.judgedInv > 0 {
		r.NonTrivial()
	}
	r.Sig(fmt.Sprintf("reorgs:%d inv:%d restarts:%d blocks:%d", min(s.reorgs, 3), min(s.judgedInv, 3), min(s.restarts, 2), len(w.Blocks)/10))
	r.Count("blocks_built", len(w.Blocks)-1)
	r.Count("reorgs", s.reorgs)
	r.Count("invalid_blocks_judged", s.judgedInv)
}

func n0tip(s *Sim) *MBlock { return s.n.Tip() }


// invalidate is the operator's InvalidateBlock on a block the node accepted,
// with the model's bookkeeping.
func (s *Sim) invalidate(b *MBlock) {
	r := s.r
	if s.markedInvalid == nil {
		s.markedInvalid = map[*MBlock]bool{}
	}
	wasMain := b.IsAncestorOf(s.n.Tip())
	// InvalidateBlock on a block the node already found invalid by
	// itself is a no-op: descendants are not (re)marked then
	_, _, failed, invAnc, _ := s.n.Chain.VerifNodeStatus(&b.Hash)
	for _, d := range s.w.Blocks[1:] {
		if failed || invAnc {
			r.Probe("invalidate-already-known-invalid")
			break
		}
		if b.IsAncestorOf(d) && s.nodeKnown(d) && (!wasMain || d.IsAncestorOf(s.n.Tip())) {
			s.markedInvalid[d] = true
		}
	}
	err := s.n.Chain.InvalidateBlock(&b.Hash)
	s.everInv = true
	if !s.excluded(b) {
		// invalidating a block that is already excluded through an
		// ancestor changes nothing
		s.manualInv[b] = true
	}
	r.Event("invalidate", "%v main=%v err=%v", b, b.IsAncestorOf(s.prevTip), err != nil)
	r.Sig("invalidate")
	r.Probe("invalidate")
	if err != nil && !isRule(err) {
		r.Violate("C02", "invalidate-error", "invalidate-returns-internal-error", "InvalidateBlock(%v): %v", b, err)
	}
	s.CheckState("invalidate")
}

// pickBest is the best fully valid model block.
func (s *Sim) pickBest() *MBlock {
	best := s.w.Blocks[0]
	for _, b := range s.w.Blocks {
		if b.ChainValid() && b.Work.Cmp(best.Work) > 0 {
			best = b
		}
	}
	return best
}

// pickParent chooses where the next block is mined.
func (s *Sim) pickParent() *MBlock {
	c := s.r.C
	w := s.w
	best := s.pickBest()
	// a pruned node only sees forks whose fork point is at most 3 blocks
	// below the best block
	shallow := func(b *MBlock) bool {
		if s.n == nil || s.n.cfg.Prune == 0 {
			return true
		}
		f := b
		for !f.IsAncestorOf(best) {
			f = f.Parent
		}
		return best.Height-f.Height <= 3
	}
	switch simkit.Pick(c, "parent", 55, 25, 20) {
	case 0:
		return best
	case 1:
		if p := w.Blocks[c.Intn(len(w.Blocks), "fork-at")]; shallow(p) {
			return p
		}
		return best
	default:
		// a leaf other than best
		var leaves []*MBlock
		for _, b := range w.Blocks {
			if len(b.Children) == 0 && b != best && shallow(b) {
				leaves = append(leaves, b)
			}
		}
		if len(leaves) == 0 {
			return best
		}
		return leaves[c.Intn(len(leaves), "leaf")]
	}
}

// steerTimestamp picks the gap to the parent's timestamp so that retarget
// clamps, the min-difficulty rule and BIP94 edges are hit, while keeping the
// mining cost bounded (slow blocks once the target got small).
func (s *Sim) steerTimestamp(parent *MBlock) int64 {
	c := s.r.C
	d := &s.w.Net.Diff
	t, _, _ := compactToBig(parent.H.bits)
	if t.BitLen() < 244 {
		// difficulty already 2^11 times the minimum: slow down
		return d.SpacingS * d.Factor * 2
	}
	switch simkit.Pick(c, "ts-steer", 30, 15, 15, 10, 10, 10, 10) {
	case 0:
		return int64(simkit.Range(c, 1, int(2*d.SpacingS), "ts-delta"))
	case 1:
		return 1
	case 2:
		return d.SpacingS * d.Factor * 2
	case 3:
		return d.MinDiffTimeS
	case 4:
		return d.MinDiffTimeS + 1
	case 5:
		return d.SpacingS / d.Factor
	default:
		return d.SpacingS
	}
}

// ensureClock advances the simulated clock until b is no longer "too new".
func (s *Sim) ensureClock(b *MBlock) {
	if d := b.H.ts - (s.adjNow() + 7200); d > 0 {
		s.Advance(time.Duration(d) * time.Second)
	}
}

func (s *Sim) deliverWithClock(b *MBlock) {
	if b.H.ts > s.adjNow()+7200 && !s.r.C.Bool(150, "deliver-too-new") {
		s.ensureClock(b)
	}
	s.Deliver(b)
}


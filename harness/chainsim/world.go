package chainsim

import (
	"sort"
	"bytes"
	"crypto/sha256"
	"encoding/binary"
	"fmt"
	"math/big"

	address "github.com/btcsuite/btcd/address/v2"
	"github.com/btcsuite/btcd/btcec/v2"
	"github.com/btcsuite/btcd/chaincfg/v2"
	"github.com/btcsuite/btcd/chainhash/v2"
	"github.com/btcsuite/btcd/txscript/v2"
	"github.com/btcsuite/btcd/wire/v2"

	"verif/harness/simkit"
)

// Rule classes of an invalid block (where the real node is expected to
// detect it; only used to decide WHEN the verdict is observable, the oracle
// never compares error codes).
const (
	ClsValid   = ""
	ClsSanity  = "sanity"         // context free: rejected even as an orphan
	ClsHeader  = "header-context" // rejected once the parent is known
	ClsBlock   = "block-context"  // rejected once the parent is known
	ClsConnect = "connect"        // stored, rejected when connection is attempted
)

// Script kinds the world generates.
const (
	KTrue = iota
	KP2PKH
	KP2WPKH
	KP2SHTrue
	KOpReturn
	KPad // <push of zeros> OP_DROP OP_TRUE, sized around a length-encoding boundary of the stored utxo format
)

var padLens = []int{121, 122, 124, 127, 128, 129}

type utxoRec struct {
	Value    int64
	PkScript []byte
	Height   int32
	Coinbase bool
	Kind     int
	Key      int
	Blk      *MBlock // creating block (for BIP68 time locks)
}

// MTx is a model transaction.
type MTx struct {
	Msg      *wire.MsgTx
	Hash     chainhash.Hash
	Fee      int64 // inputs - outputs by the model's amounts (valid txs only)
	Coinbase bool
	Ins      []wire.OutPoint
	InRecs   []*utxoRec // what the signer believed it spends (nil = unknown)
	HasWit   bool
}

// MBlock is a block of the reference world.
type MBlock struct {
	ID     int
	Hash   chainhash.Hash
	Parent *MBlock
	Height int32
	Msg    *wire.MsgBlock
	Txs    []*MTx
	H      *hdr
	Work   *big.Int // cumulative

	Class  string // own defect ("" = valid in the context of valid ancestors)
	Mut    string // mutation applied ("" or an at-limit variant name)
	Reason string

	// View after this block (nil if the block or an ancestor is invalid).
	View map[wire.OutPoint]*utxoRec
	// Spent lists the outputs this block spends, in order (valid chains only).
	Spent []*utxoRec
	// NumTx cumulative number of transactions from genesis.
	CumTx uint64

	Children []*MBlock
}

func (b *MBlock) String() string {
	if b == nil {
		return "<nil>"
	}
	return fmt.Sprintf("B%d@%d", b.ID, b.Height)
}

// ChainValid reports whether b and all its ancestors are valid.
func (b *MBlock) ChainValid() bool {
	for n := b; n != nil; n = n.Parent {
		if n.Class != ClsValid {
			return false
		}
	}
	return true
}

// FirstInvalid returns the lowest invalid block on b's path or nil.
func (b *MBlock) FirstInvalid() *MBlock {
	var bad *MBlock
	for n := b; n != nil; n = n.Parent {
		if n.Class != ClsValid {
			bad = n
		}
	}
	return bad
}

func (b *MBlock) IsAncestorOf(o *MBlock) bool {
	for n := o; n != nil && n.Height >= b.Height; n = n.Parent {
		if n == b {
			return true
		}
	}
	return false
}

// World is the reference world: a block tree built by the harness.
type World struct {
	R      *simkit.Run
	C      simkit.Chooser
	Net    *NetCfg
	Keys   []*btcec.PrivateKey
	PKH    [][]byte
	Blocks []*MBlock // by ID; Blocks[0] is genesis
	ByHash map[chainhash.Hash]*MBlock
	// every outpoint the world ever produced (valid or not, any branch)
	Universe map[wire.OutPoint]*utxoRec
	UniOrder []wire.OutPoint
	// every non-coinbase transaction the harness ever built
	AllTx      map[chainhash.Hash]*MTx
	AllTxOrder []*MTx
	extra      uint64
	params   *chaincfg.Params // for address encoding only
}

func sha(b ...[]byte) []byte {
	h := sha256.New()
	for _, x := range b {
		h.Write(x)
	}
	return h.Sum(nil)
}

// NewWorld creates the world with its genesis block.
func NewWorld(r *simkit.Run, net *NetCfg) *World {
	w := &World{R: r, C: r.C, Net: net, ByHash: map[chainhash.Hash]*MBlock{}, Universe: map[wire.OutPoint]*utxoRec{}}
	var sb [8]byte
	binary.LittleEndian.PutUint64(sb[:], r.Seed)
	for i := 0; i < 3; i++ {
		k, _ := btcec.PrivKeyFromBytes(sha(sb[:], []byte{byte(i), 'k'}))
		w.Keys = append(w.Keys, k)
		w.PKH = append(w.PKH, address.Hash160(k.PubKey().SerializeCompressed()))
	}
	// genesis
	cb := wire.NewMsgTx(1)
	cb.AddTxIn(&wire.TxIn{PreviousOutPoint: wire.OutPoint{Index: 0xffffffff}, SignatureScript: []byte{0x04, 'v', 'r', 'f', 'y'}, Sequence: 0xffffffff})
	cb.AddTxOut(&wire.TxOut{Value: 50 * 1e8, PkScript: []byte{txscript.OP_TRUE}})
	g := &wire.MsgBlock{Header: wire.BlockHeader{Version: 1, Bits: net.Diff.PowLimitBits}}
	g.Header.Timestamp = unixTime(net.GenesisTs)
	g.AddTransaction(cb)
	h := cb.TxHash()
	g.Header.MerkleRoot = chainhash.Hash(merkleRoot([]Hash{Hash(h)}))
	solve(&g.Header, true)
	net.Genesis = g
	net.GenesisHash = g.BlockHash()
	w.params = net.Params()
	gb := &MBlock{ID: 0, Hash: net.GenesisHash, Msg: g, Height: 0,
		H:    &hdr{height: 0, ts: net.GenesisTs, bits: g.Header.Bits, version: 1},
		Work: workOf(g.Header.Bits), View: map[wire.OutPoint]*utxoRec{}, CumTx: 1,
		Txs: []*MTx{{Msg: cb, Hash: h, Coinbase: true}}}
	w.Blocks = append(w.Blocks, gb)
	w.ByHash[gb.Hash] = gb
	return w
}

// solve finds a nonce; ok=true: hash <= target, ok=false: hash > target.
func solve(h *wire.BlockHeader, ok bool) { solveFrom(h, ok, 0) }

func solveFrom(h *wire.BlockHeader, ok bool, start uint32) {
	t, _, _ := compactToBig(h.Bits)
	for n := start; ; n++ {
		h.Nonce = n
		var buf bytes.Buffer
		h.Serialize(&buf)
		v := hashToBig(dsha(buf.Bytes()))
		if (v.Cmp(t) <= 0) == ok {
			return
		}
		if n == start+1<<22 {
			// give up on this timestamp-nonce space; bump the time by a second
			panic("chainsim: cannot solve header")
		}
	}
}

func (w *World) script(kind, key int) []byte {
	switch kind {
	case KTrue:
		return []byte{txscript.OP_TRUE}
	case KP2PKH:
		s := []byte{txscript.OP_DUP, txscript.OP_HASH160, 20}
		s = append(s, w.PKH[key]...)
		return append(s, txscript.OP_EQUALVERIFY, txscript.OP_CHECKSIG)
	case KP2WPKH:
		return append([]byte{0, 20}, w.PKH[key]...)
	case KP2SHTrue:
		s := []byte{txscript.OP_HASH160, 20}
		s = append(s, address.Hash160([]byte{txscript.OP_TRUE})...)
		return append(s, txscript.OP_EQUAL)
	case KOpReturn:
		return []byte{txscript.OP_RETURN, 2, 'v', byte(key)}
	case KPad:
		l := padLens[key%len(padLens)]
		sc := make([]byte, l)
		sc[0], sc[1] = txscript.OP_PUSHDATA1, byte(l-4)
		sc[l-2], sc[l-1] = txscript.OP_DROP, txscript.OP_TRUE
		return sc
	}
	panic("kind")
}

func unspendable(pk []byte) bool {
	return len(pk) > 10000 || (len(pk) > 0 && pk[0] == txscript.OP_RETURN)
}

// heightScript is the BIP34 minimal push of the height.
func heightScript(h int32) []byte {
	if h == 0 {
		return []byte{txscript.OP_0}
	}
	if h >= 1 && h <= 16 {
		return []byte{byte(txscript.OP_1 - 1 + h)}
	}
	var b []byte
	v := h
	for v > 0 {
		b = append(b, byte(v&0xff))
		v >>= 8
	}
	if b[len(b)-1]&0x80 != 0 {
		b = append(b, 0)
	}
	return append([]byte{byte(len(b))}, b...)
}

// txIn of a plan.
type planIn struct {
	Op  wire.OutPoint
	Rec *utxoRec // what the signer believes it spends (may be absent from the view)
	Seq uint32
}

type txPlan struct {
	Version int32
	Ins     []planIn
	Outs    []*wire.TxOut
	Lock    uint32
	BadSig  bool
}

// makeTx builds and signs the transaction.
func (w *World) makeTx(p *txPlan) *MTx {
	tx := wire.NewMsgTx(p.Version)
	tx.LockTime = p.Lock
	prev := map[wire.OutPoint]*wire.TxOut{}
	for _, in := range p.Ins {
		tx.AddTxIn(&wire.TxIn{PreviousOutPoint: in.Op, Sequence: in.Seq})
		if in.Rec != nil {
			prev[in.Op] = &wire.TxOut{Value: in.Rec.Value, PkScript: in.Rec.PkScript}
		} else {
			prev[in.Op] = &wire.TxOut{Value: 1000, PkScript: []byte{txscript.OP_TRUE}}
		}
	}
	for _, o := range p.Outs {
		tx.AddTxOut(o)
	}
	fetcher := txscript.NewMultiPrevOutFetcher(prev)
	hashes := txscript.NewTxSigHashes(tx, fetcher)
	hasWit := false
	for i, in := range p.Ins {
		if in.Rec == nil {
			continue
		}
		switch in.Rec.Kind {
		case KTrue, KPad:
		case KP2SHTrue:
			tx.TxIn[i].SignatureScript = []byte{1, txscript.OP_TRUE}
		case KP2PKH:
			sig, err := txscript.SignatureScript(tx, i, in.Rec.PkScript, txscript.SigHashAll, w.Keys[in.Rec.Key], true)
			if err != nil {
				panic(err)
			}
			if p.BadSig && i == 0 {
				sig[10] ^= 0x01
			}
			tx.TxIn[i].SignatureScript = sig
		case KP2WPKH:
			wit, err := txscript.WitnessSignature(tx, hashes, i, in.Rec.Value, in.Rec.PkScript, txscript.SigHashAll, w.Keys[in.Rec.Key], true)
			if err != nil {
				panic(err)
			}
			if p.BadSig && i == 0 {
				wit[0][10] ^= 0x01
			}
			tx.TxIn[i].Witness = wit
			hasWit = true
		}
	}
	m := &MTx{Msg: tx, Hash: tx.TxHash(), HasWit: hasWit}
	for _, in := range p.Ins {
		m.Ins = append(m.Ins, in.Op)
		m.InRecs = append(m.InRecs, in.Rec)
	}
	return m
}

// mtpOf is the median time past of the chain ending at b.
func (b *MBlock) mtp() int64 { return b.H.mtp() }

// spendable returns the outpoints of view in deterministic order.
func sortedOutpoints(view map[wire.OutPoint]*utxoRec, order []wire.OutPoint) []wire.OutPoint {
	var out []wire.OutPoint
	for _, op := range order {
		if _, ok := view[op]; ok {
			out = append(out, op)
		}
	}
	return out
}

// BlockOpts steer Build.
type BlockOpts struct {
	NTx      int
	Mut      string
	TsDelta  int64  // seconds after the parent's timestamp; 0 = drawn
	Version  int32  // 0 = model's nextVersion
	VoteMask uint32 // additional version bits to set
	// Txs are pre-built transactions (from the mempool side of the world) to
	// include in this order before any random ones.
	Txs []*MTx
	// TsAbs, when non-zero, is the absolute timestamp (raised to MTP+1).
	TsAbs int64
	// Dry builds the block without registering it in the world and without
	// folding it (used for templates that are only offered for checking).
	Dry bool
}

// segwitActive / csvActive for the block after parent by the BIP9 model.
func (w *World) active(parent *MBlock, id int) bool {
	return w.Net.depState(parent.H, id) == DepActive
}

// Build creates a child of parent.  The block is valid by construction unless
// o.Mut names a mutation; the mutation catalogue is in mutations.go.
func (w *World) Build(parent *MBlock, o BlockOpts) *MBlock {
	net := w.Net
	height := parent.Height + 1
	b := &MBlock{ID: len(w.Blocks), Parent: parent, Height: height, Mut: o.Mut}
	mut := mutationFor(o.Mut)

	// the view the block is built on: parent's view when the parent chain is
	// valid, else the nearest valid ancestor's (children of invalid blocks
	// carry a coinbase only).
	base := parent
	for base.View == nil {
		base = base.Parent
	}
	view := base.View
	parentValid := parent.View != nil

	// header fields
	mtp := parent.mtp()
	ts := parent.H.ts + o.TsDelta
	if o.TsDelta == 0 {
		ts = parent.H.ts + int64(simkit.Range(w.C, 1, 1200, "ts-delta"))
	}
	if o.TsAbs != 0 {
		ts = o.TsAbs
	}
	if ts <= mtp {
		ts = mtp + 1
	}
	version := o.Version
	if version == 0 {
		version = net.nextVersion(parent.H)
		if version < 4 {
			version = 4
		}
	}
	version |= int32(o.VoteMask)
	bp := &blockPlan{w: w, parent: parent, height: height, ts: ts, version: version, view: view,
		segwit: w.active(parent, chaincfg.DeploymentSegwit), csv: w.active(parent, chaincfg.DeploymentCSV)}
	if mut != nil && mut.header != nil {
		mut.header(bp)
	}
	if d := &net.Diff; d.BIP94 && height%d.interval() == 0 && bp.ts < parent.H.ts-600 && bp.flag == "" {
		// BIP94: the first block of a retarget period may not be more than
		// 600 s older than its parent.  A block meant to be valid stays so.
		if mut == nil || mut.class == ClsValid {
			bp.ts = parent.H.ts - 600
			if mut != nil && mut.header != nil {
				b.Mut = ""
				mut = nil
			}
		}
	}
	bp.bits = net.Diff.nextBits(parent.H, bp.ts)
	if mut != nil && mut.bits != nil {
		mut.bits(bp)
	}

	// transactions
	if parentValid {
		for _, t := range o.Txs {
			bp.addTx(t, t.Fee)
		}
		n := o.NTx
		for i := 0; i < n; i++ {
			bp.addRandomTx()
		}
		if mut != nil && mut.txs != nil {
			if !mut.txs(bp) {
				// not applicable in this context: fall back to a valid block
				b.Mut = ""
				mut = nil
			}
		}
	} else if mut != nil && mut.txs != nil {
		b.Mut = ""
		mut = nil
	}
	if mut != nil && mut.pre != nil && !mut.pre(bp) {
		b.Mut = ""
		mut = nil
	}

	// coinbase
	fees := int64(0)
	for _, t := range bp.txs {
		fees += t.Fee
	}
	sub := subsidyAt(height, net.SubsidyInterval)
	cbVal := sub + fees + bp.cbDelta
	if bp.cbDelta == 0 && !bp.cbExact && w.C.Bool(200, "cb-underpay") && sub+fees > 10 {
		cbVal = sub + fees - int64(w.C.Intn(10, "cb-under"))
	}
	cb := wire.NewMsgTx(1)
	w.extra++
	sc := bp.cbHeightScript
	if sc == nil {
		sc = heightScript(height)
	}
	var en [8]byte
	binary.LittleEndian.PutUint64(en[:], w.extra)
	sc = append(append([]byte{}, sc...), 8)
	sc = append(sc, en[:]...)
	if bp.cbScriptLen > 0 {
		for len(sc) < bp.cbScriptLen {
			sc = append(sc, 0x51)
		}
		sc = sc[:bp.cbScriptLen]
	}
	cb.AddTxIn(&wire.TxIn{PreviousOutPoint: wire.OutPoint{Index: 0xffffffff}, SignatureScript: sc, Sequence: 0xffffffff})
	kind := simkit.Pick(w.C, "cb-kind", 4, 3, 3, 1)
	key := w.C.Intn(len(w.Keys), "cb-key")
	if cbVal > 2000 && w.C.Bool(300, "cb-split") {
		cb.AddTxOut(&wire.TxOut{Value: cbVal / 2, PkScript: w.script(kind, key)})
		cb.AddTxOut(&wire.TxOut{Value: cbVal - cbVal/2, PkScript: w.script(KTrue, 0)})
	} else {
		cb.AddTxOut(&wire.TxOut{Value: cbVal, PkScript: w.script(kind, key)})
	}
	if bp.cbMutate != nil {
		bp.cbMutate(cb)
	}
	if bp.cbClone != nil {
		// BIP30 scenarios: an exact copy of an earlier coinbase of this branch
		cb = bp.cbClone
	}
	if bp.sigopTarget > 0 {
		// pad the legacy signature-operation count of the block to the target
		others := 0
		count := func(tx *wire.MsgTx) {
			for _, o := range tx.TxOut {
				if k, _ := w.classify(o.PkScript); k == KP2PKH {
					others++
				}
			}
		}
		count(cb)
		for _, t := range bp.txs {
			count(t.Msg)
		}
		need := bp.sigopTarget - others
		if need > 0 {
			pk := make([]byte, 0, need/20+20)
			for i := 0; i < need/20; i++ {
				pk = append(pk, txscript.OP_CHECKMULTISIG)
			}
			for i := 0; i < need%20; i++ {
				pk = append(pk, txscript.OP_CHECKSIG)
			}
			cb.AddTxOut(&wire.TxOut{Value: 0, PkScript: pk})
		}
	}
	cbm := &MTx{Msg: cb, Coinbase: true}
	all := append([]*MTx{cbm}, bp.txs...)
	if bp.reorder != nil {
		all = bp.reorder(all)
	}

	// witness commitment
	needCommit := false
	for _, t := range all {
		if t.HasWit {
			needCommit = true
		}
	}
	commitMode := bp.commitMode
	if bp.cbClone != nil || bp.sizeTarget > 0 {
		// (a witness commitment would add witness bytes: the size cases are
		// about the size without witness data and the weight it implies)
		commitMode = "none"
	}
	if commitMode == "" {
		if needCommit || (bp.segwit && w.C.Bool(150, "commit-anyway")) {
			commitMode = "ok"
		} else {
			commitMode = "none"
		}
	}
	if commitMode != "none" {
		nonce := make([]byte, 32)
		if commitMode == "nonce31" {
			nonce = make([]byte, 31)
		}
		cb.TxIn[0].Witness = wire.TxWitness{nonce}
		leaves := make([]Hash, len(all))
		for i, t := range all {
			if i == 0 {
				continue // coinbase wtxid is zero
			}
			leaves[i] = Hash(t.Msg.WitnessHash())
		}
		root := merkleRoot(leaves)
		var pre [64]byte
		copy(pre[:32], root[:])
		copy(pre[32:], make([]byte, 32))
		c := dsha(pre[:])
		if commitMode == "wrong" || commitMode == "wrong-long" {
			c[5] ^= 0x40
		}
		magic := []byte{txscript.OP_RETURN, 0x24, 0xaa, 0x21, 0xa9, 0xed}
		bad := c
		bad[7] ^= 0x22
		// with several commitment-shaped outputs the LAST one counts (BIP141)
		switch commitMode {
		case "two-last-good":
			cb.AddTxOut(&wire.TxOut{Value: 0, PkScript: append(append([]byte(nil), magic...), bad[:]...)})
		case "two-last-bad":
			cb.AddTxOut(&wire.TxOut{Value: 0, PkScript: append(append([]byte(nil), magic...), c[:]...)})
			c = bad
		}
		pk := append(append([]byte(nil), magic...), c[:]...)
		if commitMode == "long" || commitMode == "wrong-long" {
			// the commitment output may carry more data after the 38 bytes (BIP141)
			pk = append(pk, 0x04, 0xde, 0xad, 0xbe, 0xef)
		}
		cb.AddTxOut(&wire.TxOut{Value: 0, PkScript: pk})
	}
	if bp.sizeTarget > 0 {
		// pad the block's serialized size without witness data to the target
		// with an unspendable coinbase output (OP_RETURN followed by OP_0s)
		cur := 80 + wire.VarIntSerializeSize(uint64(len(all)))
		for _, t := range all {
			cur += t.Msg.SerializeSizeStripped()
		}
		for L := bp.sizeTarget - cur - 8 - 5; L <= bp.sizeTarget-cur-8-1 && L > 0; L++ {
			if cur+8+wire.VarIntSerializeSize(uint64(L))+L == bp.sizeTarget {
				pk := make([]byte, L)
				pk[0] = txscript.OP_RETURN
				cb.AddTxOut(&wire.TxOut{Value: 0, PkScript: pk})
				break
			}
		}
	}
	cbm.Hash = cb.TxHash()

	// assemble
	msg := &wire.MsgBlock{Header: wire.BlockHeader{Version: bp.version, PrevBlock: parent.Hash, Bits: bp.bits}}
	msg.Header.Timestamp = unixTime(bp.ts)
	leaves := make([]Hash, 0, len(all))
	for _, t := range all {
		msg.AddTransaction(t.Msg)
		leaves = append(leaves, Hash(t.Msg.TxHash()))
	}
	if bp.noTx {
		msg.Transactions = nil
		leaves = nil
		all = nil
	}
	msg.Header.MerkleRoot = chainhash.Hash(merkleRoot(leaves))
	if bp.badMerkle {
		msg.Header.MerkleRoot[7] ^= 0x10
	}
	solve(&msg.Header, !bp.badPow)
	for w.ByHash[msg.BlockHash()] != nil {
		// two model blocks with equal headers (both without transactions,
		// say) must stay distinct blocks
		solveFrom(&msg.Header, !bp.badPow, msg.Header.Nonce+1)
	}

	b.Msg = msg
	b.Hash = msg.BlockHash()
	b.Txs = all
	b.H = &hdr{parent: parent.H, height: height, ts: bp.ts, bits: bp.bits, version: bp.version}
	b.Work = new(big.Int).Add(parent.Work, workOf(bp.bits))
	if mut != nil {
		b.Class = mut.class
		b.Reason = mut.name
	}
	b.CumTx = parent.CumTx + uint64(len(all))
	if o.Dry {
		b.ID = -1
		return b
	}

	w.register(b, parent, all, view, parentValid)
	return b
}

// Adopt registers a block assembled by the node itself (a solved block
// template): coinbase plus transactions the harness knows.  It is valid by
// the model's own fold or the fold panics.
func (w *World) Adopt(parent *MBlock, msg *wire.MsgBlock) *MBlock {
	b := &MBlock{ID: len(w.Blocks), Parent: parent, Height: parent.Height + 1, Msg: msg, Hash: msg.BlockHash(), Mut: "node-template"}
	for i, tx := range msg.Transactions {
		if i == 0 {
			b.Txs = append(b.Txs, &MTx{Msg: tx, Hash: tx.TxHash(), Coinbase: true})
			continue
		}
		t := w.AllTx[tx.TxHash()]
		if t == nil {
			panic("chainsim: template contains a transaction the harness does not know")
		}
		b.Txs = append(b.Txs, t)
	}
	h := msg.Header
	b.H = &hdr{parent: parent.H, height: b.Height, ts: h.Timestamp.Unix(), bits: h.Bits, version: h.Version}
	b.Work = new(big.Int).Add(parent.Work, workOf(h.Bits))
	b.CumTx = parent.CumTx + uint64(len(b.Txs))
	w.register(b, parent, b.Txs, parent.View, parent.View != nil)
	return b
}

// register records b's transactions and outputs, folds it onto the parent's
// view and links it into the tree.
func (w *World) register(b *MBlock, parent *MBlock, all []*MTx, view map[wire.OutPoint]*utxoRec, parentValid bool) {
	height := b.Height
	for _, t := range all {
		if !t.Coinbase {
			w.addTx(t)
		}
	}
	// register outputs in the universe (every outpoint ever produced).  The
	// order of the universe steers later choices, and the order in which the
	// node's template generator lists equally attractive transactions is
	// decided by Go's random map iteration inside the mempool: for blocks the
	// node assembled the registration order is by transaction id instead.
	regOrder := all
	if b.Mut == "node-template" {
		regOrder = append([]*MTx(nil), all...)
		sort.SliceStable(regOrder[1:], func(i, j int) bool {
			return bytes.Compare(regOrder[1+i].Hash[:], regOrder[1+j].Hash[:]) < 0
		})
	}
	for _, t := range regOrder {
		for i, out := range t.Msg.TxOut {
			op := wire.OutPoint{Hash: t.Msg.TxHash(), Index: uint32(i)}
			if _, ok := w.Universe[op]; !ok {
				rec := &utxoRec{Value: out.Value, PkScript: out.PkScript, Height: height, Coinbase: t.Coinbase, Blk: b}
				rec.Kind, rec.Key = w.classify(out.PkScript)
				w.Universe[op] = rec
				w.UniOrder = append(w.UniOrder, op)
			}
		}
	}

	// model fold: the view after this block
	if parentValid && b.Class == ClsValid {
		nv := make(map[wire.OutPoint]*utxoRec, len(view)+8)
		for k, v := range view {
			nv[k] = v
		}
		for _, t := range all {
			if !t.Coinbase {
				for _, op := range t.Ins {
					rec, ok := nv[op]
					if !ok {
						panic(fmt.Sprintf("chainsim: generator produced a spend of a missing output in a block meant to be valid (%v mut=%q)", b, b.Mut))
					}
					b.Spent = append(b.Spent, rec)
					delete(nv, op)
				}
			}
			for i, out := range t.Msg.TxOut {
				if unspendable(out.PkScript) {
					continue
				}
				op := wire.OutPoint{Hash: t.Msg.TxHash(), Index: uint32(i)}
				// a fresh record per block: the same transaction can be
				// confirmed at different heights on different branches
				u := w.Universe[op]
				nv[op] = &utxoRec{Value: u.Value, PkScript: u.PkScript, Height: height, Coinbase: t.Coinbase, Kind: u.Kind, Key: u.Key, Blk: b}
			}
		}
		b.View = nv
	}
	parent.Children = append(parent.Children, b)
	w.Blocks = append(w.Blocks, b)
	w.ByHash[b.Hash] = b
}

// addTx records a non-coinbase transaction the harness built (block side or
// pool side) so that amounts are known independently of the node.
func (w *World) addTx(t *MTx) {
	if w.AllTx == nil {
		w.AllTx = map[chainhash.Hash]*MTx{}
	}
	if _, ok := w.AllTx[t.Hash]; !ok {
		w.AllTx[t.Hash] = t
		w.AllTxOrder = append(w.AllTxOrder, t)
	}
}

func (w *World) classify(pk []byte) (int, int) {
	for k := range w.Keys {
		if bytes.Equal(pk, w.script(KP2PKH, k)) {
			return KP2PKH, k
		}
		if bytes.Equal(pk, w.script(KP2WPKH, k)) {
			return KP2WPKH, k
		}
	}
	if bytes.Equal(pk, w.script(KTrue, 0)) {
		return KTrue, 0
	}
	if bytes.Equal(pk, w.script(KP2SHTrue, 0)) {
		return KP2SHTrue, 0
	}
	for i, l := range padLens {
		if len(pk) == l && bytes.Equal(pk, w.script(KPad, i)) {
			return KPad, i
		}
	}
	return KOpReturn, 0
}

// blockPlan is the mutable plan of a block under construction.
type blockPlan struct {
	w       *World
	parent  *MBlock
	height  int32
	ts      int64
	version int32
	bits    uint32
	view    map[wire.OutPoint]*utxoRec
	segwit  bool
	csv     bool

	txs     []*MTx
	spentIn map[wire.OutPoint]bool     // spent by txs of this block
	created map[wire.OutPoint]*utxoRec // created by txs of this block

	flag           string // set by a header mutation that found its context
	sigopTarget    int    // pad legacy sigops of the block to this number
	sizeTarget     int    // pad the stripped block size to this number of bytes
	cbClone        *wire.MsgTx
	cbDelta        int64
	cbExact        bool
	cbHeightScript []byte
	cbScriptLen    int
	cbMutate       func(cb *wire.MsgTx)
	reorder        func([]*MTx) []*MTx
	commitMode     string
	noTx           bool
	badMerkle      bool
	badPow         bool
}

// candidates returns spendable outpoints (mature, unspent in this block) in
// deterministic order.
func (bp *blockPlan) candidates() []wire.OutPoint {
	var out []wire.OutPoint
	for _, op := range bp.w.UniOrder {
		rec, ok := bp.view[op]
		if !ok || bp.spentIn[op] {
			continue
		}
		if rec.Coinbase && bp.height-rec.Height < bp.w.Net.Maturity {
			continue
		}
		if rec.Kind == KOpReturn {
			continue
		}
		if rec.Kind == KP2WPKH && !bp.segwit {
			continue
		}
		out = append(out, op)
	}
	// outputs created earlier in this block
	for _, t := range bp.txs {
		for i := range t.Msg.TxOut {
			op := wire.OutPoint{Hash: t.Hash, Index: uint32(i)}
			if rec, ok := bp.created[op]; ok && !bp.spentIn[op] && rec.Kind != KOpReturn && (rec.Kind != KP2WPKH || bp.segwit) {
				out = append(out, op)
			}
		}
	}
	return out
}

func (bp *blockPlan) rec(op wire.OutPoint) *utxoRec {
	if r, ok := bp.created[op]; ok {
		return r
	}
	return bp.view[op]
}

// randomOuts splits total into 1..3 outputs of random kinds.
func (bp *blockPlan) randomOuts(total int64) []*wire.TxOut {
	w := bp.w
	n := simkit.Range(w.C, 1, 3, "n-outs")
	var outs []*wire.TxOut
	left := total
	for i := 0; i < n; i++ {
		v := left
		if i < n-1 {
			v = left / int64(n-i)
		}
		left -= v
		kind := simkit.Pick(w.C, "out-kind", 4, 3, 3, 1, 1, 1)
		if !bp.segwit && kind == KP2WPKH {
			kind = KP2PKH
		}
		if kind == KOpReturn {
			// keep the value spendable elsewhere: unspendable outputs carry 0
			left += v
			v = 0
		}
		outs = append(outs, &wire.TxOut{Value: v, PkScript: w.script(kind, w.C.Intn(len(w.Keys), "out-key"))})
	}
	if left > 0 {
		outs = append(outs, &wire.TxOut{Value: left, PkScript: w.script(KTrue, 0)})
	}
	return outs
}

// addTx registers a built transaction in the plan.
func (bp *blockPlan) addTx(t *MTx, fee int64) {
	if bp.spentIn == nil {
		bp.spentIn = map[wire.OutPoint]bool{}
		bp.created = map[wire.OutPoint]*utxoRec{}
	}
	t.Fee = fee
	for _, op := range t.Ins {
		bp.spentIn[op] = true
	}
	for i, out := range t.Msg.TxOut {
		op := wire.OutPoint{Hash: t.Hash, Index: uint32(i)}
		rec := &utxoRec{Value: out.Value, PkScript: out.PkScript, Height: bp.height}
		rec.Kind, rec.Key = bp.w.classify(out.PkScript)
		if !unspendable(out.PkScript) {
			bp.created[op] = rec
		}
	}
	bp.txs = append(bp.txs, t)
}

// addRandomTx adds one valid transaction if anything is spendable.
func (bp *blockPlan) addRandomTx() *MTx {
	if bp.spentIn == nil {
		bp.spentIn = map[wire.OutPoint]bool{}
		bp.created = map[wire.OutPoint]*utxoRec{}
	}
	w := bp.w
	cands := bp.candidates()
	if len(cands) == 0 {
		return nil
	}
	nin := simkit.Range(w.C, 1, 3, "n-ins")
	p := &txPlan{Version: int32(simkit.Range(w.C, 1, 2, "tx-ver"))}
	var total int64
	used := map[wire.OutPoint]bool{}
	for i := 0; i < nin && len(cands) > 0; i++ {
		op := cands[w.C.Intn(len(cands), "pick-in")]
		if used[op] {
			continue
		}
		used[op] = true
		rec := bp.rec(op)
		// sequence: final; BIP68 is disabled via bit 31 or trivially met (0)
		seq := uint32(0xffffffff)
		if w.C.Bool(300, "seq-nonfinal") {
			seq = 0xfffffffe
		}
		p.Ins = append(p.Ins, planIn{Op: op, Rec: rec, Seq: seq})
		total += rec.Value
	}
	if len(p.Ins) == 0 {
		return nil
	}
	fee := int64(0)
	if total > 1000 {
		fee = int64(w.C.Intn(500, "fee"))
	}
	p.Outs = bp.randomOuts(total - fee)
	// by-construction final lock time
	if w.C.Bool(200, "locktime") && bp.height > 1 {
		p.Lock = uint32(w.C.Intn(int(bp.height), "lock-h")) // < height: final
	}
	t := w.makeTx(p)
	bp.addTx(t, fee)
	return t
}

package v2sim

import (
	"bytes"
	"fmt"
	"reflect"
	"runtime/debug"
	"strings"
	"sync"
	"unsafe"

	"github.com/btcsuite/btcd/btcec/v2"
	"github.com/btcsuite/btcd/v2transport"

	"verif/harness/bip324ref"
)

// pkt is one application (or handshake decoy) packet of the workload.
type pkt struct {
	contents []byte
	ignore   bool
	aad      []byte // spurious AAD (fault wrong_aad_send); normally nil
	// reserved header bits a (reference) sender sets: receivers must ignore them
	reserved byte
	// a real sender first tries to send more than a packet can hold
	oversizeFirst bool
}

// sentRec is one packet as it appears in a sender's raw stream.
type sentRec struct {
	start, end int
	kind       byte // 'd' handshake decoy, 'v' version, 'a' application
	idx        int  // index among app packets (kind 'a')
	ignore     bool
	contents   []byte
}

// obs is one observation made on an endpoint goroutine; the driver moves
// observations into the event log at quiescent points, in a fixed order.
type obs struct {
	kind     string // "hs", "pkt", "err", "panic", "harness-panic"
	data     []byte
	ignored  bool
	err      string
	consumed int
	phase    string
}

type endpoint struct {
	name      string // "A" initiator, "B" responder
	idx       int
	initiator bool
	isReal    bool
	net       v2transport.BitcoinNet
	magic     [4]byte
	io        *end

	// plan
	garbageLen int
	garbage    []byte // ref only: the bytes (possibly re-crafted late)
	hsDecoys   []int
	verLen     int // reference endpoints: length of the version packet's contents (receivers must ignore them)
	pkts       []pkt
	// ref behaviour knobs
	refEarlyKey     bool // responder: send key right after the first mismatching byte
	refLateGarbage  bool // send garbage only after the peer's key is known
	refNearTermMode int  // 0 none; 1..: craft garbage around the own terminator
	refNearTermArg  int
	refWrongTerm    int // -1 none, else index of the terminator byte to alter
	refWrongAAD     int // 0 none, 1 bit flipped, 2 empty, 3 truncated, 4 extended, 5 kept for 2nd packet
	// wrong_aad_recv: spurious AAD for receive call number recvPoisonCall
	recvPoisonCall int
	recvPoisonAAD  []byte

	real *v2transport.Peer
	ref  *bip324ref.Endpoint

	mu   sync.Mutex
	log  []obs
	done bool

	// driver-side state
	hsDone    bool
	hsOK      bool
	hsErr     string
	hsConsume int
	recvd     []obs // packets returned by the receive loop
	recvErr   *obs  // terminating error of the receive loop
	nextPkt   int
	sent      []sentRec
	dead      bool // receive side has terminated
}

func (e *endpoint) note(o obs) {
	e.mu.Lock()
	e.log = append(e.log, o)
	e.mu.Unlock()
}

func (e *endpoint) drain() []obs {
	e.mu.Lock()
	l := e.log
	e.log = nil
	e.mu.Unlock()
	return l
}

func (e *endpoint) isDone() bool {
	e.mu.Lock()
	defer e.mu.Unlock()
	return e.done
}

// inSUT reports whether the innermost non-runtime frame of a panic stack is
// in the repository under test.
func inSUT(stack string) bool {
	seen := false
	for _, l := range strings.Split(stack, "\n") {
		if strings.HasPrefix(l, "panic(") {
			seen = true
			continue
		}
		if !seen || strings.HasPrefix(l, "\t") || l == "" {
			continue
		}
		if strings.HasPrefix(l, "runtime.") || strings.HasPrefix(l, "runtime/") {
			continue
		}
		return strings.HasPrefix(l, "github.com/btcsuite/btcd")
	}
	return false
}

func (e *endpoint) goroutine() {
	defer func() {
		if p := recover(); p != nil {
			st := string(debug.Stack())
			k := "harness-panic"
			if inSUT(st) {
				k = "panic"
			}
			if len(st) > 2500 {
				st = st[:2500]
			}
			e.note(obs{kind: k, err: fmt.Sprint(p) + "\n" + st})
		}
		e.mu.Lock()
		e.done = true
		e.mu.Unlock()
	}()
	if e.isReal {
		e.runReal()
	} else {
		e.runRef()
	}
}

func errStr(err error) string {
	if err == nil {
		return ""
	}
	return err.Error()
}

func (e *endpoint) runReal() {
	p := e.real
	var err error
	phase := "complete"
	if e.initiator {
		err = p.InitiateV2Handshake(e.garbageLen)
		if err != nil {
			phase = "initiate"
		}
	} else {
		err = p.RespondV2Handshake(e.garbageLen, e.net)
		if err != nil {
			phase = "respond"
		}
	}
	if err == nil {
		err = p.CompleteHandshake(e.initiator, e.hsDecoys, e.net)
	}
	e.note(obs{kind: "hs", err: errStr(err), consumed: e.io.rd.consumedNow(), phase: phase})
	if err != nil {
		return
	}
	for call := 0; ; call++ {
		var aad []byte
		if call == e.recvPoisonCall {
			aad = e.recvPoisonAAD
		}
		pt, err := p.V2ReceivePacket(aad)
		c := e.io.rd.consumedNow()
		if err != nil {
			e.note(obs{kind: "err", err: err.Error(), consumed: c})
			return
		}
		e.note(obs{kind: "pkt", data: append([]byte(nil), pt...), consumed: c})
	}
}

// refGarbage returns the garbage the reference endpoint sends.  When the
// session is already known (late garbage) it can be crafted around the
// endpoint's own garbage terminator T:
//
//	mode 1: garbage ends with the first k bytes of T (1<=k<=15)
//	mode 2: garbage contains T with byte k altered, then more garbage
//	mode 3: garbage ends with T with byte k altered
func (e *endpoint) refGarbage() []byte {
	g := append([]byte(nil), e.garbage...)
	if e.ref.S == nil || e.refNearTermMode == 0 {
		return g
	}
	t := e.ref.S.SendGarbageTerm
	k := e.refNearTermArg % 16
	plain := append([]byte(nil), g...)
	defer func() {
		// the terminator itself must not occur before the end of the garbage
		// (that would legitimately end the garbage early)
		if bytes.Index(append(append([]byte(nil), g...), t[:]...), t[:]) != len(g) {
			copy(g, plain)
		}
	}()
	switch e.refNearTermMode {
	case 1:
		if k == 0 {
			k = 15
		}
		if len(g) >= k {
			copy(g[len(g)-k:], t[:k])
		}
	case 2, 3:
		if len(g) >= 16 {
			pos := len(g) - 16
			if e.refNearTermMode == 2 {
				pos = (len(g) - 16) / 2
			}
			copy(g[pos:], t[:])
			g[pos+k] ^= 0x01 << uint(e.refNearTermArg/16%8)
		}
	}
	return g
}

func (e *endpoint) runRef() {
	ep := e.ref
	w := e.io
	fail := func(phase string, err error) {
		e.note(obs{kind: "hs", err: err.Error(), consumed: e.io.rd.consumedNow(), phase: phase})
	}
	keySent := false
	sendKey := func(withGarbage bool) {
		if !keySent {
			keySent = true
			if withGarbage {
				ep.SendKey(w, e.refGarbage())
				return
			}
			w.Write(ep.EllswiftOurs[:])
		}
	}
	if e.initiator {
		sendKey(!e.refLateGarbage)
	} else {
		if err := ep.ReadUntilV1Mismatch(w); err != nil {
			fail("respond", err)
			return
		}
		if e.refEarlyKey {
			sendKey(!e.refLateGarbage)
		}
	}
	if err := ep.ReceiveKey(w); err != nil {
		fail("key", err)
		return
	}
	if !keySent {
		sendKey(true)
	} else if e.refLateGarbage {
		g := e.refGarbage()
		ep.SentGarbage = g
		w.Write(g)
	}
	// garbage terminator, decoys, version packet
	term := ep.S.SendGarbageTerm
	if e.refWrongTerm >= 0 {
		term[e.refWrongTerm%16] ^= 0x40
	}
	w.Write(term[:])
	aad := append([]byte(nil), ep.SentGarbage...)
	switch e.refWrongAAD {
	case 1:
		if len(aad) > 0 {
			aad[len(aad)/2] ^= 0x10
		} else {
			aad = []byte{0}
		}
	case 2:
		if len(aad) > 0 {
			aad = nil
		} else {
			aad = []byte{0x55}
		}
	case 3:
		if len(aad) > 0 {
			aad = aad[:len(aad)-1]
		} else {
			aad = []byte{0, 0}
		}
	case 4:
		aad = append(aad, 0)
	}
	first := aad
	for i, n := range e.hsDecoys {
		a := []byte(nil)
		if i == 0 {
			a = first
		} else if i == 1 && e.refWrongAAD == 5 {
			a = first
		}
		w.Write(ep.S.Send.EncPacket(make([]byte, n), a, true))
	}
	va := []byte(nil)
	if len(e.hsDecoys) == 0 {
		va = first
	} else if len(e.hsDecoys) == 1 && e.refWrongAAD == 5 {
		va = first
	}
	w.Write(ep.S.Send.EncPacket(make([]byte, e.verLen), va, false))

	if err := ep.ReceiveGarbageAndVersion(w); err != nil {
		fail("complete", err)
		return
	}
	e.note(obs{kind: "hs", consumed: e.io.rd.consumedNow(), phase: "complete"})
	for {
		c, ign, err := ep.S.Recv.ReadPacket(w, nil)
		n := e.io.rd.consumedNow()
		if err != nil {
			e.note(obs{kind: "err", err: err.Error(), consumed: n})
			return
		}
		e.note(obs{kind: "pkt", data: c, ignored: ign, consumed: n})
	}
}

// send encrypts and writes the next application packet on the driver
// goroutine (the endpoint goroutine is parked in its receive loop or gone).
func (e *endpoint) send(p pkt) (ret []byte, start int, err error) {
	start = e.io.wr.rawLen()
	if e.isReal {
		var n int
		if p.oversizeFirst {
			// an attempt to send more than a packet can hold is refused and
			// must leave the send ciphers untouched
			big := make([]byte, 1<<24)
			if _, _, oerr := e.real.V2EncPacket(big, nil, false); oerr == nil {
				return nil, start, fmt.Errorf("V2EncPacket accepted %d bytes of contents", len(big))
			}
			if e.io.wr.rawLen() != start {
				return nil, start, fmt.Errorf("a refused oversize packet wrote %d bytes", e.io.wr.rawLen()-start)
			}
		}
		ret, n, err = e.real.V2EncPacket(p.contents, p.aad, p.ignore)
		if err == nil && n != len(ret) {
			err = fmt.Errorf("V2EncPacket reported %d bytes sent for a %d byte packet", n, len(ret))
		}
		return ret, start, err
	}
	ret = e.ref.S.Send.EncPacketReserved(p.contents, p.aad, p.ignore, p.reserved)
	e.io.wr.Write(ret)
	return ret, start, nil
}

// ---------------------------------------------------------------------------
// Reading unexported state of v2transport.Peer (observation only).

func peerField(p *v2transport.Peer, name string) reflect.Value {
	v := reflect.ValueOf(p).Elem()
	f := v.FieldByName(name)
	if !f.IsValid() {
		panic("v2sim: v2transport.Peer has no field " + name + " (harness needs updating)")
	}
	return reflect.NewAt(f.Type(), unsafe.Pointer(f.UnsafeAddr())).Elem()
}

func peerPriv(p *v2transport.Peer) *btcec.PrivateKey {
	k, ok := peerField(p, "privkeyOurs").Interface().(*btcec.PrivateKey)
	if !ok {
		panic("v2sim: privkeyOurs has an unexpected type")
	}
	return k
}

func peerSessionID(p *v2transport.Peer) []byte {
	b, ok := peerField(p, "sessionID").Interface().([]byte)
	if !ok {
		panic("v2sim: sessionID has an unexpected type")
	}
	return append([]byte(nil), b...)
}

package v2sim

// peerlink: a real btcd peer.Peer configured for the v2 transport, on a
// simulated connection, against the independent reference implementation
// (bip324ref) as the remote node.  This is the part of C19 that lives in
// peer/peer.go: the peer's use of the transport for its handshake and for every
// message it reads and writes (readMessage / writeMessage, v2 branches).
//
// Real: peer.Peer (negotiation, in/out handlers), v2transport.Peer, wire's v2
// message framing.  Stub: the connection (simconn), the remote node (bip324ref
// for the transport, the harness's own framing of the v2 message contents).
//
// Oracles (fault-free): the two sides complete both handshakes; every message
// the application queues arrives at the reference as a packet whose contents
// are the BIP324 message encoding of it, in FIFO order; every message the
// reference sends reaches the matching listener once, in order; decoys and
// unknown commands reach none.
// Faults: a torn write on the peer's socket (short write + error) at a drawn
// offset - nothing may follow it on the wire (both ciphers have advanced, the
// stream cannot be continued) and the peer disconnects; one flipped bit in a
// packet sent to the peer - nothing of it or after it is delivered and the
// peer disconnects; the remote hangs up inside a packet.

import (
	"bytes"
	"crypto/sha256"
	"encoding/binary"
	"errors"
	"fmt"
	"io"
	"math/rand"
	"net"
	"runtime"
	"strings"
	"sync"
	"testing/cryptotest"
	"testing/synctest"
	"time"

	"github.com/btcsuite/btcd/btcec/v2"
	"github.com/btcsuite/btcd/btcec/v2/ellswift"
	"github.com/btcsuite/btcd/chaincfg/v2"
	"github.com/btcsuite/btcd/chainhash/v2"
	"github.com/btcsuite/btcd/peer"
	"github.com/btcsuite/btcd/wire/v2"

	"verif/harness/bip324ref"
	"verif/harness/simconn"
	"verif/harness/simkit"
)

// BIP324 short message ids (the table of the BIP, not wire's).
var plShortID = map[string]byte{
	"addr": 1, "block": 2, "blocktxn": 3, "cmpctblock": 4, "feefilter": 5, "filteradd": 6, "filterclear": 7,
	"filterload": 8, "getblocks": 9, "getblocktxn": 10, "getdata": 11, "getheaders": 12, "headers": 13, "inv": 14,
	"mempool": 15, "merkleblock": 16, "notfound": 17, "ping": 18, "pong": 19, "sendcmpct": 20, "tx": 21,
	"getcfilters": 22, "cfilter": 23, "getcfheaders": 24, "cfheaders": 25, "getcfcheckpt": 26, "cfcheckpt": 27, "addrv2": 28,
}

// plEncode is the contents of the packet that carries message cmd.
func plEncode(cmd string, payload []byte) []byte {
	if id, ok := plShortID[cmd]; ok {
		return append([]byte{id}, payload...)
	}
	out := make([]byte, 13, 13+len(payload))
	copy(out[1:], cmd)
	return append(out, payload...)
}

// plDecode splits packet contents into command and payload.
func plDecode(c []byte) (cmd string, payload []byte, ok bool) {
	if len(c) == 0 {
		return "", nil, false
	}
	if c[0] != 0 {
		for k, v := range plShortID {
			if v == c[0] {
				return k, c[1:], true
			}
		}
		return "", nil, false
	}
	if len(c) < 13 {
		return "", nil, false
	}
	return string(bytes.TrimRight(c[1:13], "\x00")), c[13:], true
}

type plRecv struct {
	contents []byte
	ignore   bool
}

type plCallback struct {
	name string
	tok  string
}

type plink struct {
	r    *simkit.Run
	p    *peer.Peer
	conn *simconn.Conn
	ep   *bip324ref.Endpoint

	mu       sync.Mutex
	recv     []plRecv // packets the reference received after the handshake
	recvErr  string   // how the reference's receive loop ended
	hsErr    string
	hsDone   bool
	cbs      []plCallback
	veracks  int
	writeErr []string // OnWrite errors
	wrote    int      // OnWrite calls without error

	outbound bool
	magic    [4]byte
	remotePV int32
}

type plReader struct{ c *simconn.Conn }

func (r plReader) Read(p []byte) (int, error) { return r.c.RemoteRead(p) }

type plRW struct {
	plReader
	c *simconn.Conn
}

func (w plRW) Write(p []byte) (int, error) { w.c.Deliver(p); return len(p), nil }

func (l *plink) cb(name, tok string) {
	l.mu.Lock()
	l.cbs = append(l.cbs, plCallback{name, tok})
	l.mu.Unlock()
}

func invTok(l []*wire.InvVect) string {
	if len(l) == 0 {
		return ""
	}
	return fmt.Sprintf("%d:%x", l[0].Type, l[0].Hash[:8])
}

func (l *plink) listeners() peer.MessageListeners {
	return peer.MessageListeners{
		OnPing:     func(p *peer.Peer, m *wire.MsgPing) { l.cb("ping", fmt.Sprint(m.Nonce)) },
		OnPong:     func(p *peer.Peer, m *wire.MsgPong) { l.cb("pong", fmt.Sprint(m.Nonce)) },
		OnInv:      func(p *peer.Peer, m *wire.MsgInv) { l.cb("inv", invTok(m.InvList)) },
		OnGetData:  func(p *peer.Peer, m *wire.MsgGetData) { l.cb("getdata", invTok(m.InvList)) },
		OnNotFound: func(p *peer.Peer, m *wire.MsgNotFound) { l.cb("notfound", invTok(m.InvList)) },
		OnHeaders:  func(p *peer.Peer, m *wire.MsgHeaders) { l.cb("headers", fmt.Sprint(len(m.Headers))) },
		OnGetAddr:  func(p *peer.Peer, m *wire.MsgGetAddr) { l.cb("getaddr", "") },
		OnAddr:     func(p *peer.Peer, m *wire.MsgAddr) { l.cb("addr", fmt.Sprint(len(m.AddrList))) },
		OnAddrV2: func(p *peer.Peer, m *wire.MsgAddrV2) {
			tok := ""
			if len(m.AddrList) > 0 {
				tok = fmt.Sprintf("%s:%d", m.AddrList[0].Addr.String(), m.AddrList[0].Port)
			}
			l.cb("addrv2", tok)
		},
		OnGetHeaders: func(p *peer.Peer, m *wire.MsgGetHeaders) {
			l.cb("getheaders", fmt.Sprintf("%d:%x", len(m.BlockLocatorHashes), m.HashStop[:8]))
		},
		OnMemPool:  func(p *peer.Peer, m *wire.MsgMemPool) { l.cb("mempool", "") },
		OnFeeFilter: func(p *peer.Peer, m *wire.MsgFeeFilter) {
			l.cb("feefilter", fmt.Sprint(m.MinFee))
		},
		OnVerAck: func(p *peer.Peer, m *wire.MsgVerAck) {
			l.mu.Lock()
			l.veracks++
			l.mu.Unlock()
		},
		OnWrite: func(p *peer.Peer, n int, m wire.Message, err error) {
			l.mu.Lock()
			if err != nil {
				l.writeErr = append(l.writeErr, m.Command())
			} else {
				l.wrote++
			}
			l.mu.Unlock()
		},
	}
}

// remoteMain is the reference node's goroutine: the transport handshake, then
// the receive loop.  Sending after the handshake is done by the driver.
func (l *plink) remoteMain(garbage []byte, decoys []int, verLen int, wrongTerm bool) {
	ep := l.ep
	rw := plRW{plReader{l.conn}, l.conn}
	fail := func(phase string, err error) {
		l.mu.Lock()
		l.hsErr = phase + ": " + err.Error()
		l.mu.Unlock()
	}
	if ep.Initiating {
		ep.SendKey(rw, garbage)
	} else {
		if err := ep.ReadUntilV1Mismatch(rw); err != nil {
			fail("respond", err)
			return
		}
	}
	if err := ep.ReceiveKey(rw); err != nil {
		fail("key", err)
		return
	}
	if !ep.Initiating {
		ep.SendKey(rw, garbage)
	}
	term := ep.S.SendGarbageTerm
	if wrongTerm {
		term[5] ^= 0x20
	}
	rw.Write(term[:])
	aad := append([]byte(nil), ep.SentGarbage...)
	for _, n := range decoys {
		rw.Write(ep.S.Send.EncPacket(make([]byte, n), aad, true))
		aad = nil
	}
	rw.Write(ep.S.Send.EncPacket(make([]byte, verLen), aad, false))
	if err := ep.ReceiveGarbageAndVersion(rw); err != nil {
		fail("complete", err)
		return
	}
	l.mu.Lock()
	l.hsDone = true
	l.mu.Unlock()
	for {
		c, ign, err := ep.S.Recv.ReadPacket(rw, nil)
		l.mu.Lock()
		if err != nil {
			l.recvErr = err.Error()
			l.mu.Unlock()
			return
		}
		l.recv = append(l.recv, plRecv{append([]byte(nil), c...), ign})
		l.mu.Unlock()
	}
}

func (l *plink) send(cmd string, payload []byte) []byte {
	return l.ep.S.Send.EncPacket(plEncode(cmd, payload), nil, false)
}

func plInvPayload(typ uint32, h [32]byte) []byte {
	b := []byte{1}
	b = binary.LittleEndian.AppendUint32(b, typ)
	return append(b, h[:]...)
}

func le64b(v uint64) []byte { return binary.LittleEndian.AppendUint64(nil, v) }

type plMsg struct {
	cmd     string
	payload []byte
	cbName  string // listener expected to fire ("" = none)
	cbTok   string
}

func runPeerLink(r *simkit.Run) {
	c := r.C
	rand.Seed(int64(r.Seed))
	cryptotest.SetGlobalRandom(r.T, uint64(c.Intn(1<<30, "pl.cryptoseed"))+1)
	// peers own tickers: leave the bubble's initial instant first
	time.Sleep(time.Duration(24*365*20+c.Intn(5000, "pl.epoch-h")) * time.Hour)
	r.MarkEpoch()

	l := &plink{r: r, outbound: c.Bool(500, "pl.outbound")}
	params := []*chaincfg.Params{&chaincfg.MainNetParams, &chaincfg.TestNet3Params, &chaincfg.RegressionNetParams, &chaincfg.SimNetParams}[c.Intn(4, "pl.net")]
	binary.LittleEndian.PutUint32(l.magic[:], uint32(params.Net))
	l.remotePV = []int32{70016, 70016, 70015, 70013, 70002}[c.Intn(5, "pl.rpv")]
	r.Meta["mode"] = "peerlink"
	r.Sig("peerlink")

	// fault plan
	const (
		fNone = iota
		fTornWrite
		fFlip
		fTruncate
		fWrongTerm
		fV1Remote
		fNoV2Remote
	)
	fault := simkit.Pick(c, "pl.fault", 10, 6, 4, 2, 1, 3, 2)
	if (fault == fV1Remote && l.outbound) || (fault == fNoV2Remote && !l.outbound) {
		fault = fNone
	}
	faultNames := []string{"none", "torn_socket_write", "bit_flip_to_peer", "remote_hangup_inside_packet", "wrong_garbage_terminator", "v1_remote", "remote_without_v2"}
	for _, n := range faultNames[1:] {
		r.FaultEnabled("peerlink_" + n)
	}
	r.Sig("pl.fault=" + faultNames[fault])

	genesis := *params.GenesisHash
	cfg := &peer.Config{
		NewestBlock:         func() (*chainhash.Hash, int32, error) { return &genesis, 77, nil },
		UserAgentName:       "verifpeer",
		UserAgentVersion:    "1.0.0",
		ChainParams:         params,
		Services:            wire.SFNodeNetwork | wire.SFNodeWitness | wire.SFNodeP2PV2,
		TrickleInterval:     10 * time.Second,
		AllowSelfConns:      true,
		DisableStallHandler: true,
		UsingV2Conn:         true,
		Listeners:           l.listeners(),
	}
	if l.outbound {
		p, err := peer.NewOutboundPeer(cfg, "10.0.0.2:8333")
		if err != nil {
			panic("harness: NewOutboundPeer: " + err.Error())
		}
		l.p = p
	} else {
		l.p = peer.NewInboundPeer(cfg)
	}
	if l.p.V2Transport == nil {
		panic("harness: the peer did not create a v2 transport")
	}
	l.conn = simconn.New(&net.TCPAddr{IP: net.IPv4(10, 0, 0, 1), Port: 18555}, &net.TCPAddr{IP: net.IPv4(10, 0, 0, 2), Port: 8333}, 0)
	if c.Bool(400, "pl.small-reads") {
		l.conn.SetMaxRead(simkit.Range(c, 1, 40, "pl.maxread"))
	}

	if fault == fV1Remote || fault == fNoV2Remote {
		r.Event("peerlink", "outbound=%v net=%s rpv=%d scenario=%s", l.outbound, params.Name, l.remotePV, faultNames[fault])
		r.Fault("peerlink_" + faultNames[fault])
		l.p.AssociateConnection(l.conn)
		synctest.Wait()
		defer func() {
			l.p.Disconnect()
			l.conn.RemoteClose(nil, nil)
			synctest.Wait()
		}()
		if fault == fV1Remote {
			l.v1Remote()
		} else {
			l.noV2Remote()
		}
		return
	}

	// the reference node
	kb := c.Bytes(32, "pl.priv")
	kb[31] |= 1
	kb[0] &= 0x7f
	priv, _ := btcec.PrivKeyFromBytes(kb)
	l.ep = &bip324ref.Endpoint{Initiating: !l.outbound, Magic: l.magic, Priv: priv}
	enc, err := plEllswift(c, priv)
	if err != nil {
		panic("harness: " + err.Error())
	}
	l.ep.EllswiftOurs = enc
	glen := []int{0, 1, 16, 100, 4095}[c.Intn(5, "pl.garbage")]
	garbage := c.Bytes(glen, "pl.garbage-bytes")
	var decoys []int
	for i := c.Intn(3, "pl.decoys"); i > 0; i-- {
		decoys = append(decoys, c.Intn(60, "pl.decoy-len"))
	}
	r.Event("peerlink", "outbound=%v net=%s rpv=%d garbage=%d decoys=%d fault=%s", l.outbound, params.Name, l.remotePV, glen, len(decoys), faultNames[fault])

	verLen := 0
	if c.Bool(300, "pl.version-contents") {
		verLen = simkit.Range(c, 1, 40, "pl.version-len")
	}
	go l.remoteMain(garbage, decoys, verLen, fault == fWrongTerm)
	l.p.AssociateConnection(l.conn)
	synctest.Wait()

	defer func() {
		l.p.Disconnect()
		l.conn.RemoteClose(nil, nil)
		synctest.Wait()
	}()

	l.mu.Lock()
	hsDone, hsErr := l.hsDone, l.hsErr
	l.mu.Unlock()
	if fault == fWrongTerm {
		r.Fault("peerlink_wrong_garbage_terminator")
		time.Sleep(40 * time.Second)
		synctest.Wait()
		l.mu.Lock()
		v := l.veracks
		l.mu.Unlock()
		if v > 0 || l.p.VerAckReceived() {
			r.Violate(propID, "peerlink-handshake-refused", "", "the remote sent a wrong garbage terminator but the peer completed its handshake")
		}
		if l.p.Connected() {
			r.Violate(propID, "peerlink-handshake-refused", "", "the remote sent a wrong garbage terminator; 40 s later the peer is still connected")
		}
		r.NonTrivial()
		return
	}
	if !hsDone {
		r.Violate(propID, "peerlink-transport-handshake", "", "the reference node could not complete the BIP324 handshake with the peer: %s (connected=%v)", hsErr, l.p.Connected())
		return
	}

	// the application-level handshake inside the encrypted channel
	vb := bytes.NewBuffer(l.versionPayload())
	l.conn.Deliver(l.send("version", vb.Bytes()))
	if c.Bool(300, "pl.wtxidrelay") {
		l.conn.Deliver(l.send("wtxidrelay", nil)) // a command btcd does not know: skipped
	}
	l.conn.Deliver(l.send("verack", nil))
	synctest.Wait()
	l.mu.Lock()
	veracks := l.veracks
	l.mu.Unlock()
	if veracks != 1 || !l.p.VerAckReceived() || !l.p.Connected() {
		r.Violate(propID, "peerlink-handshake", "", "version and verack were delivered inside the encrypted channel but OnVerAck fired %d times, VerAckReceived=%v Connected=%v (reference receive loop: %q)",
			veracks, l.p.VerAckReceived(), l.p.Connected(), l.recvErrNow())
		return
	}
	wantPV := uint32(l.remotePV)
	if pv := l.p.ProtocolVersion(); pv != wantPV {
		r.Violate(propID, "peerlink-handshake", "", "negotiated protocol version %d, want %d", pv, wantPV)
	}
	// what the peer sent during the handshake: version [sendaddrv2] verack
	hs := l.drainRecv()
	var hsCmds []string
	for _, pk := range hs {
		if pk.ignore {
			continue
		}
		cmd, _, ok := plDecode(pk.contents)
		if !ok {
			r.Violate(propID, "peerlink-encoding", "", "handshake packet with contents %x is no BIP324 message encoding", clip(pk.contents, 20))
		}
		hsCmds = append(hsCmds, cmd)
	}
	wantHs := "version verack"
	if l.remotePV >= 70016 {
		wantHs = "version sendaddrv2 verack"
	}
	if got := strings.Join(hsCmds, " "); got != wantHs {
		r.Violate(propID, "peerlink-handshake", "", "during the handshake the peer sent %q inside the channel, want %q", got, wantHs)
	}
	r.Probe("peerlink-handshake-complete")

	// traffic
	var queued []plMsg  // peer -> reference, in queue order
	var sentTo []plMsg  // reference -> peer
	var dones []chan struct{}
	var pongsDue []uint64
	steps := simkit.Range(c, 4, 30, "pl.steps")
	faultAt := c.Intn(steps, "pl.fault-step")
	faulted := false
	tornOff := -1
	flipAt := -1
	var elapsed time.Duration
	for i := 0; i < steps && !faulted; i++ {
		if i == faultAt {
			switch fault {
			case fTornWrite:
				// the next packet the peer writes is torn
				tornOff = l.conn.WrittenLen() + 1 + c.Intn(60, "pl.tear-off")
				l.conn.TearWriteAt(tornOff, &net.OpError{Op: "write", Net: "tcp", Err: errors.New("i/o timeout (injected)")})
				r.Fault("peerlink_torn_socket_write")
				n := simkit.Range(c, 2, 5, "pl.tear-msgs")
				for j := 0; j < n; j++ {
					m, wm := plDrawQueued(c)
					done := make(chan struct{}, 2)
					l.p.QueueMessage(wm, done)
					queued, dones = append(queued, m), append(dones, done)
				}
				synctest.Wait()
				faulted = true
				continue
			case fFlip:
				m := plDrawRemote(c, wantPV, &pongsDue)
				pkt := l.send(m.cmd, m.payload)
				flipAt = c.Intn(len(pkt), "pl.flip-at")
				pkt[flipAt] ^= 1 << uint(c.Intn(8, "pl.flip-bit"))
				l.conn.Deliver(pkt)
				r.Fault("peerlink_bit_flip_to_peer")
				// more (intact) packets behind it
				for j := c.Intn(3, "pl.after-flip"); j > 0; j-- {
					m2 := plDrawRemote(c, wantPV, &pongsDue)
					l.conn.Deliver(l.send(m2.cmd, m2.payload))
				}
				synctest.Wait()
				faulted = true
				continue
			case fTruncate:
				m := plDrawRemote(c, wantPV, &pongsDue)
				pkt := l.send(m.cmd, m.payload)
				l.conn.Deliver(pkt[:1+c.Intn(len(pkt)-1, "pl.trunc-at")])
				l.conn.RemoteClose(nil, nil)
				r.Fault("peerlink_remote_hangup_inside_packet")
				synctest.Wait()
				faulted = true
				continue
			}
		}
		switch simkit.Pick(c, "pl.step", 5, 5, 2, 1, 1) {
		case 0: // the application queues a message
			m, wm := plDrawQueued(c)
			done := make(chan struct{}, 2)
			l.p.QueueMessage(wm, done)
			queued, dones = append(queued, m), append(dones, done)
		case 1: // the reference sends a message
			m := plDrawRemote(c, wantPV, &pongsDue)
			l.conn.Deliver(l.send(m.cmd, m.payload))
			sentTo = append(sentTo, m)
		case 2: // a decoy
			l.conn.Deliver(l.ep.S.Send.EncPacket(c.Bytes(c.Intn(80, "pl.decoy-n"), "pl.decoy"), nil, true))
			r.Probe("peerlink-decoy-to-peer")
		case 3: // an unknown command (skipped by the peer)
			l.conn.Deliver(l.send("verifxyz", c.Bytes(c.Intn(30, "pl.unk-n"), "pl.unk")))
		default:
			if d := time.Duration(1+c.Intn(20, "pl.adv")) * time.Second; elapsed+d < 100*time.Second {
				elapsed += d
				time.Sleep(d)
			}
		}
		synctest.Wait()
	}
	synctest.Wait()

	// ---- judgement
	got := l.drainRecv()
	var nonPong [][]byte
	var pongs []uint64
	for _, pk := range got {
		if pk.ignore {
			continue
		}
		cmd, payload, ok := plDecode(pk.contents)
		if !ok {
			r.Violate(propID, "peerlink-encoding", "", "the peer sent a packet whose contents %x are no BIP324 message encoding", clip(pk.contents, 20))
		}
		if cmd == "pong" && len(payload) == 8 {
			pongs = append(pongs, binary.LittleEndian.Uint64(payload))
			continue
		}
		nonPong = append(nonPong, pk.contents)
	}
	l.mu.Lock()
	cbs := append([]plCallback(nil), l.cbs...)
	writeErrs := append([]string(nil), l.writeErr...)
	l.mu.Unlock()

	switch {
	case !faulted:
		// peer -> reference: exactly the queued messages, in order
		if len(nonPong) != len(queued) {
			r.Violate(propID, "peerlink-sent-equals-received", "", "%d messages were queued on the peer, the reference received %d packets (receive loop: %q)", len(queued), len(nonPong), l.recvErrNow())
		}
		for i := range queued {
			want := plEncode(queued[i].cmd, queued[i].payload)
			if !bytes.Equal(nonPong[i], want) {
				r.Violate(propID, "peerlink-sent-equals-received", "", "packet %d from the peer carries %x, the BIP324 encoding of the queued %s is %x", i, clip(nonPong[i], 24), queued[i].cmd, clip(want, 24))
			}
		}
		for i, d := range dones {
			if len(d) != 1 {
				r.Violate(propID, "peerlink-sent-equals-received", "", "completion of queued message %d (%s) signalled %d times", i, queued[i].cmd, len(d))
			}
		}
		if fmt.Sprint(pongs) != fmt.Sprint(pongsDue) {
			r.Violate(propID, "peerlink-sent-equals-received", "", "pings %v were sent to the peer, pongs %v came back", pongsDue, pongs)
		}
		// reference -> peer: the listeners, in order
		var want []plCallback
		for _, m := range sentTo {
			if m.cbName != "" {
				want = append(want, plCallback{m.cbName, m.cbTok})
			}
		}
		if fmt.Sprint(cbs) != fmt.Sprint(want) {
			r.Violate(propID, "peerlink-received-equals-sent", "", "the reference sent %v; the peer's listeners saw %v", want, cbs)
		}
		if !l.p.Connected() {
			r.Violate(propID, "peerlink-received-equals-sent", "", "no fault was injected but the peer disconnected (reference receive loop: %q)", l.recvErrNow())
		}
		if len(queued)+len(sentTo) > 0 {
			r.NonTrivial()
		}
		r.Probe("peerlink-fault-free-run-judged")
	case fault == fTornWrite:
		time.Sleep(5 * time.Second)
		synctest.Wait()
		torn := l.conn.TornAt()
		if torn < 0 {
			r.Probe("peerlink-tear-not-reached")
			break
		}
		r.NonTrivial()
		if n := l.conn.WrittenLen(); n != torn {
			r.Violate(propID, "peerlink-nothing-after-torn-write", "", "a write on the peer's socket was torn at byte %d (error returned); afterwards the peer wrote %d more bytes behind the incomplete packet: the stream is no BIP324 stream any more", torn, n-torn)
		}
		if l.p.Connected() {
			r.Violate(propID, "peerlink-nothing-after-torn-write", "", "a write on the peer's socket failed half way (byte %d) and the peer is still connected", torn)
		}
		if len(writeErrs) == 0 {
			r.Violate(propID, "peerlink-nothing-after-torn-write", "", "a write on the peer's socket failed half way (byte %d) but no OnWrite call reported an error", torn)
		}
		// what the reference did receive is a prefix of what was queued
		for i := range nonPong {
			if i >= len(queued) || !bytes.Equal(nonPong[i], plEncode(queued[i].cmd, queued[i].payload)) {
				r.Violate(propID, "peerlink-sent-equals-received", "", "after the torn write the reference holds packet %d = %x, not the queued message at that position", i, clip(nonPong[i], 24))
			}
		}
		r.Probe("peerlink-torn-write-judged")
	default: // fFlip, fTruncate: nothing of the damaged packet or after it is delivered
		time.Sleep(5 * time.Second)
		synctest.Wait()
		r.NonTrivial()
		var want []plCallback
		for _, m := range sentTo {
			if m.cbName != "" {
				want = append(want, plCallback{m.cbName, m.cbTok})
			}
		}
		if fmt.Sprint(cbs) != fmt.Sprint(want) {
			r.Violate(propID, "peerlink-no-altered-plaintext", "", "intact messages %v were sent before the damaged packet; the peer's listeners saw %v", want, cbs)
		}
		// (a flipped bit in the encrypted length field can announce a longer
		// packet: the peer then legitimately waits for the rest of it)
		if l.p.Connected() && !(fault == fFlip && flipAt < 3) {
			r.Violate(propID, "peerlink-no-altered-plaintext", "", "a damaged packet (%s) was delivered to the peer and it is still connected", faultNames[fault])
		}
		r.Probe("peerlink-damaged-packet-judged")
	}

	// shutdown: every goroutine of the peer ends
	l.p.Disconnect()
	l.conn.RemoteClose(nil, nil)
	synctest.Wait()
	time.Sleep(2 * time.Second)
	synctest.Wait()
	buf := make([]byte, 1<<20)
	stacks := string(buf[:runtime.Stack(buf, true)])
	for _, g := range strings.Split(stacks, "\n\n") {
		if strings.Contains(g, "btcd/peer.(*Peer).") && !strings.Contains(g, "runPeerLink") {
			r.Violate(propID, "peerlink-goroutines-end", "", "after Disconnect a goroutine of the peer is still alive: %s", firstLine(strings.SplitN(g, "\n", 3)[1]))
			break
		}
	}
	r.State("peerlink out=%v fault=%s queued=%d sent=%d", l.outbound, faultNames[fault], min(len(queued), 3), min(len(sentTo), 3))
}

// versionPayload is the remote node's version message.
func (l *plink) versionPayload() []byte {
	c := l.r.C
	me := wire.NewNetAddressIPPort(net.IPv4(10, 0, 0, 2), 8333, wire.SFNodeNetwork|wire.SFNodeP2PV2)
	you := wire.NewNetAddressIPPort(net.IPv4(10, 0, 0, 1), 18555, wire.SFNodeNetwork)
	mv := wire.NewMsgVersion(me, you, binary.LittleEndian.Uint64(c.Bytes(8, "pl.nonce"))|1, 100)
	mv.ProtocolVersion = l.remotePV
	mv.Services = wire.SFNodeNetwork | wire.SFNodeWitness | wire.SFNodeP2PV2
	mv.UserAgent = "/refnode:0.1/"
	mv.Timestamp = time.Unix(time.Now().Unix(), 0)
	var vb bytes.Buffer
	if err := mv.BtcEncode(&vb, wire.ProtocolVersion, wire.BaseEncoding); err != nil {
		panic("harness: version encode: " + err.Error())
	}
	return vb.Bytes()
}

// ---- the v1 wire format, framed independently of /repo/wire

func plFrameV1(magic [4]byte, cmd string, payload []byte) []byte {
	out := make([]byte, 24+len(payload))
	copy(out[0:4], magic[:])
	copy(out[4:16], cmd)
	binary.LittleEndian.PutUint32(out[16:20], uint32(len(payload)))
	h1 := sha256.Sum256(payload)
	h2 := sha256.Sum256(h1[:])
	copy(out[20:24], h2[:4])
	copy(out[24:], payload)
	return out
}

type plV1Msg struct {
	cmd     string
	payload []byte
	ok      bool // magic and checksum right
}

func plSplitV1(magic [4]byte, b []byte) (msgs []plV1Msg, rest int) {
	for len(b) >= 24 {
		n := int(binary.LittleEndian.Uint32(b[16:20]))
		if n > 1<<25 || len(b) < 24+n {
			break
		}
		p := b[24 : 24+n]
		h1 := sha256.Sum256(p)
		h2 := sha256.Sum256(h1[:])
		msgs = append(msgs, plV1Msg{string(bytes.TrimRight(b[4:16], "\x00")), p, bytes.Equal(b[0:4], magic[:]) && bytes.Equal(b[20:24], h2[:4])})
		b = b[24+n:]
	}
	return msgs, len(b)
}

// v1Remote: a node that only speaks the v1 protocol connects to a peer that
// accepts v2: the peer recognises the v1 version message by its first bytes,
// answers in v1 and the connection works as a v1 connection.
func (l *plink) v1Remote() {
	r, c := l.r, l.r.C
	msg := plFrameV1(l.magic, "version", l.versionPayload())
	cut := c.Intn(len(msg), "pl.v1-cut")
	l.conn.Deliver(msg[:cut])
	synctest.Wait()
	l.conn.Deliver(msg[cut:])
	synctest.Wait()
	l.conn.Deliver(plFrameV1(l.magic, "verack", nil))
	synctest.Wait()
	l.mu.Lock()
	veracks := l.veracks
	l.mu.Unlock()
	if veracks != 1 || !l.p.VerAckReceived() || !l.p.Connected() {
		r.Violate(propID, "peerlink-v1-downgrade", "", "a v1 node sent version and verack to a peer that accepts v2: OnVerAck fired %d times, VerAckReceived=%v Connected=%v", veracks, l.p.VerAckReceived(), l.p.Connected())
		return
	}
	if pv := l.p.ProtocolVersion(); pv != uint32(l.remotePV) {
		r.Violate(propID, "peerlink-v1-downgrade", "", "negotiated protocol version %d, want %d", pv, l.remotePV)
	}
	msgs, rest := plSplitV1(l.magic, l.conn.Written())
	var cmds []string
	for _, m := range msgs {
		if !m.ok {
			r.Violate(propID, "peerlink-v1-downgrade", "", "the peer answered the v1 node with a message (%q) of wrong magic or checksum", m.cmd)
		}
		cmds = append(cmds, m.cmd)
	}
	want := "version verack"
	if l.remotePV >= 70016 {
		want = "version sendaddrv2 verack"
	}
	if got := strings.Join(cmds, " "); got != want || rest != 0 {
		r.Violate(propID, "peerlink-v1-downgrade", "", "the peer answered the v1 node with %q (+%d stray bytes), want the v1 messages %q", got, rest, want)
	}
	nHs := len(msgs)
	// traffic on the downgraded connection
	var queued, sentTo []plMsg
	var pongsDue []uint64
	for i := simkit.Range(c, 2, 10, "pl.v1-steps"); i > 0; i-- {
		if c.Bool(500, "pl.v1-dir") {
			m, wm := plDrawQueued(c)
			l.p.QueueMessage(wm, nil)
			queued = append(queued, m)
		} else {
			m := plDrawRemote(c, uint32(l.remotePV), &pongsDue)
			l.conn.Deliver(plFrameV1(l.magic, m.cmd, m.payload))
			sentTo = append(sentTo, m)
		}
		synctest.Wait()
	}
	msgs, rest = plSplitV1(l.magic, l.conn.Written())
	var got []plV1Msg
	var pongs []uint64
	for _, m := range msgs[nHs:] {
		if m.cmd == "pong" && len(m.payload) == 8 {
			pongs = append(pongs, binary.LittleEndian.Uint64(m.payload))
			continue
		}
		got = append(got, m)
	}
	if len(got) != len(queued) || rest != 0 {
		r.Violate(propID, "peerlink-v1-downgrade", "", "%d messages were queued on the downgraded connection, %d v1 messages (+%d stray bytes) were written", len(queued), len(got), rest)
	}
	for i := range queued {
		if !got[i].ok || got[i].cmd != queued[i].cmd || !bytes.Equal(got[i].payload, queued[i].payload) {
			r.Violate(propID, "peerlink-v1-downgrade", "", "message %d on the downgraded connection is %q %x (framing ok=%v), queued was %q %x", i, got[i].cmd, clip(got[i].payload, 20), got[i].ok, queued[i].cmd, clip(queued[i].payload, 20))
		}
	}
	if fmt.Sprint(pongs) != fmt.Sprint(pongsDue) {
		r.Violate(propID, "peerlink-v1-downgrade", "", "pings %v were sent on the downgraded connection, pongs %v came back", pongsDue, pongs)
	}
	var wantCbs []plCallback
	for _, m := range sentTo {
		wantCbs = append(wantCbs, plCallback{m.cbName, m.cbTok})
	}
	l.mu.Lock()
	cbs := append([]plCallback(nil), l.cbs...)
	l.mu.Unlock()
	if fmt.Sprint(cbs) != fmt.Sprint(wantCbs) {
		r.Violate(propID, "peerlink-v1-downgrade", "", "the v1 node sent %v; the peer's listeners saw %v", wantCbs, cbs)
	}
	r.NonTrivial()
	r.Probe("peerlink-v1-node-served-by-v2-capable-peer")
	r.State("peerlink v1-remote queued=%d sent=%d", min(len(queued), 3), min(len(sentTo), 3))
}

// noV2Remote: the peer dials a node that does not know the v2 transport: it
// takes the 64-byte key for a broken v1 message and hangs up without a byte.
// The peer has to report that the connection should be retried with v1.
func (l *plink) noV2Remote() {
	r, c := l.r, l.r.C
	if n := l.conn.WrittenLen(); n < 64 {
		r.Violate(propID, "peerlink-v1-downgrade", "", "an outbound v2 peer wrote %d bytes after connecting, want its 64-byte key (and garbage)", n)
	}
	if l.p.ShouldDowngradeToV1() {
		r.Violate(propID, "peerlink-v1-downgrade", "", "ShouldDowngradeToV1 is true before the remote did anything")
	}
	if c.Bool(500, "pl.nov2-reset") {
		l.conn.RemoteClose(&net.OpError{Op: "read", Net: "tcp", Err: errors.New("connection reset by peer (injected)")}, nil)
	} else {
		l.conn.RemoteClose(nil, nil)
	}
	synctest.Wait()
	time.Sleep(time.Second)
	synctest.Wait()
	l.mu.Lock()
	veracks := l.veracks
	l.mu.Unlock()
	if !l.p.ShouldDowngradeToV1() {
		r.Violate(propID, "peerlink-v1-downgrade", "", "the remote hung up on the peer's key without sending a byte, but ShouldDowngradeToV1 is false")
	}
	if l.p.Connected() || veracks != 0 {
		r.Violate(propID, "peerlink-v1-downgrade", "", "the remote hung up during the key exchange: Connected=%v OnVerAck fired %d times", l.p.Connected(), veracks)
	}
	r.NonTrivial()
	r.Probe("peerlink-remote-without-v2-signals-downgrade")
	r.State("peerlink no-v2-remote")
}

func (l *plink) recvErrNow() string {
	l.mu.Lock()
	defer l.mu.Unlock()
	return l.recvErr
}

func (l *plink) drainRecv() []plRecv {
	l.mu.Lock()
	defer l.mu.Unlock()
	out := l.recv
	l.recv = nil
	return out
}

// plDrawQueued draws a message the application queues on the peer, with the
// harness's own encoding of its payload.
func plDrawQueued(c simkit.Chooser) (plMsg, wire.Message) {
	var h [32]byte
	copy(h[:], c.Bytes(32, "pl.tok"))
	ch := chainhash.Hash(h)
	switch simkit.Pick(c, "pl.qkind", 4, 4, 3, 2, 2, 1, 2, 2) {
	case 6:
		m := wire.NewMsgAddrV2()
		ts := time.Unix(time.Now().Unix(), 0)
		m.AddrList = append(m.AddrList, wire.NetAddressV2FromBytes(ts, wire.SFNodeNetwork, []byte{10, h[0], h[1], h[2]}, 8333))
		b := []byte{1}
		b = binary.LittleEndian.AppendUint32(b, uint32(ts.Unix()))
		b = append(b, 1, 1, 4, 10, h[0], h[1], h[2], 0x20, 0x8d)
		return plMsg{cmd: "addrv2", payload: b}, m
	case 7:
		m := wire.NewMsgGetHeaders()
		m.AddBlockLocatorHash(&ch)
		m.HashStop = ch
		b := binary.LittleEndian.AppendUint32(nil, 0) // the queued message carries ProtocolVersion 0
		b = append(b, 1)
		b = append(b, h[:]...)
		b = append(b, h[:]...)
		return plMsg{cmd: "getheaders", payload: b}, m
	case 0:
		n := binary.LittleEndian.Uint64(h[:8])
		return plMsg{cmd: "ping", payload: le64b(n)}, wire.NewMsgPing(n)
	case 1:
		m := wire.NewMsgInv()
		m.AddInvVect(wire.NewInvVect(wire.InvTypeTx, &ch))
		if c.Bool(200, "pl.big-inv") {
			// a packet of tens of kilobytes
			n := simkit.Range(c, 253, 1200, "pl.big-inv-n")
			payload := []byte{0xfd, byte(n), byte(n >> 8)}
			payload = append(payload, plInvPayload(1, h)[1:]...)
			for i := 1; i < n; i++ {
				hi := h
				binary.LittleEndian.PutUint32(hi[28:], uint32(i))
				chi := chainhash.Hash(hi)
				m.AddInvVect(wire.NewInvVect(wire.InvTypeTx, &chi))
				payload = append(payload, plInvPayload(1, hi)[1:]...)
			}
			return plMsg{cmd: "inv", payload: payload}, m
		}
		return plMsg{cmd: "inv", payload: plInvPayload(1, h)}, m
	case 2:
		m := wire.NewMsgGetData()
		m.AddInvVect(wire.NewInvVect(wire.InvTypeBlock, &ch))
		return plMsg{cmd: "getdata", payload: plInvPayload(2, h)}, m
	case 3:
		m := wire.NewMsgNotFound()
		m.AddInvVect(wire.NewInvVect(wire.InvTypeTx, &ch))
		return plMsg{cmd: "notfound", payload: plInvPayload(1, h)}, m
	case 4:
		return plMsg{cmd: "getaddr"}, wire.NewMsgGetAddr()
	default:
		return plMsg{cmd: "mempool"}, wire.NewMsgMemPool()
	}
}

// plDrawRemote draws a message the reference node sends to the peer.
func plDrawRemote(c simkit.Chooser, pv uint32, pongsDue *[]uint64) plMsg {
	var h [32]byte
	copy(h[:], c.Bytes(32, "pl.rtok"))
	tok := func(t uint32) string { return fmt.Sprintf("%d:%x", t, h[:8]) }
	k := simkit.Pick(c, "pl.rkind", 4, 3, 3, 2, 2, 1, 2, 2, 2, 1, 1)
	if k == 5 && pv < 70013 {
		k = 1 // (feefilter exists from protocol version 70013 on)
	}
	switch k {
	case 6: // addrv2, the last short id of the table: one IPv4 address
		b := []byte{1}
		b = binary.LittleEndian.AppendUint32(b, uint32(time.Now().Unix()))
		b = append(b, 1, 1, 4, 10, h[0], h[1], h[2], 0x20, 0x8d)
		return plMsg{cmd: "addrv2", payload: b, cbName: "addrv2", cbTok: fmt.Sprintf("10.%d.%d.%d:%d", h[0], h[1], h[2], 0x208d)}
	case 7: // addr, the first short id
		b := []byte{1}
		b = binary.LittleEndian.AppendUint32(b, uint32(time.Now().Unix()))
		b = append(b, le64b(1)...)
		b = append(b, 0, 0, 0, 0, 0, 0, 0, 0, 0, 0, 0xff, 0xff, 10, h[0], h[1], h[2], 0x20, 0x8d)
		return plMsg{cmd: "addr", payload: b, cbName: "addr", cbTok: "1"}
	case 8:
		b := binary.LittleEndian.AppendUint32(nil, 70016)
		b = append(b, 1)
		b = append(b, h[:]...)
		b = append(b, h[:]...)
		return plMsg{cmd: "getheaders", payload: b, cbName: "getheaders", cbTok: fmt.Sprintf("1:%x", h[:8])}
	case 9:
		return plMsg{cmd: "mempool", cbName: "mempool"}
	case 10:
		return plMsg{cmd: "getaddr", cbName: "getaddr"}
	case 0:
		n := binary.LittleEndian.Uint64(h[:8])
		*pongsDue = append(*pongsDue, n)
		return plMsg{cmd: "ping", payload: le64b(n), cbName: "ping", cbTok: fmt.Sprint(n)}
	case 1:
		if c.Bool(200, "pl.big-rinv") {
			n := simkit.Range(c, 253, 1200, "pl.big-rinv-n")
			payload := []byte{0xfd, byte(n), byte(n >> 8)}
			for i := 0; i < n; i++ {
				hi := h
				if i > 0 {
					binary.LittleEndian.PutUint32(hi[28:], uint32(i))
				}
				payload = append(payload, plInvPayload(1, hi)[1:]...)
			}
			return plMsg{cmd: "inv", payload: payload, cbName: "inv", cbTok: tok(1)}
		}
		return plMsg{cmd: "inv", payload: plInvPayload(1, h), cbName: "inv", cbTok: tok(1)}
	case 2:
		return plMsg{cmd: "getdata", payload: plInvPayload(2, h), cbName: "getdata", cbTok: tok(2)}
	case 3:
		return plMsg{cmd: "notfound", payload: plInvPayload(1, h), cbName: "notfound", cbTok: tok(1)}
	case 4:
		return plMsg{cmd: "headers", payload: []byte{0}, cbName: "headers", cbTok: "0"}
	default:
		n := binary.LittleEndian.Uint64(h[:8]) >> 2
		return plMsg{cmd: "feefilter", payload: le64b(n), cbName: "feefilter", cbTok: fmt.Sprint(int64(n))}
	}
}

var _ = io.EOF

// plEllswift encodes the reference node's public key: a drawn u and the first
// of the eight inverse cases that has a preimage.
func plEllswift(c simkit.Chooser, priv *btcec.PrivateKey) ([64]byte, error) {
	var enc [64]byte
	x := bip324ref.PubX(priv)
	for try := 0; try < 32; try++ {
		var u btcec.FieldVal
		var ub [32]byte
		copy(ub[:], c.Bytes(32, "pl.u"))
		if u.SetBytes(&ub) != 0 {
			u.Normalize()
		}
		u.Normalize()
		if u.IsZero() {
			u.SetInt(1)
		}
		for cs := 0; cs < 8; cs++ {
			uc, xc := u, *x
			if t := ellswift.XSwiftECInv(&uc, &xc, cs); t != nil {
				copy(enc[:32], u.Bytes()[:])
				copy(enc[32:], t.Bytes()[:])
				return enc, nil
			}
		}
	}
	return enc, errors.New("no ElligatorSwift preimage found in 32 tries")
}

//go:debug randseednop=0

// Package v2sim is the deterministic-simulation engine for property C19 (the
// BIP324 v2 transport of btcd).  See /verif/DESIGN.md §4.4 and §5 "C19".
//
// Real: v2transport.Peer, v2transport/chacha.go, btcec/ellswift.
// Stub: the byte stream (simstream_test.go); in modes M2 / M3ref the other
// endpoint is the independent reference implementation bip324ref.
package v2sim

import (
	"math/big"
	"bytes"
	"crypto/sha256"
	"encoding/binary"
	"fmt"
	"os"
	"strings"
	"testing"
	"testing/cryptotest"
	"testing/synctest"
	"time"

	"github.com/btcsuite/btcd/btcec/v2"
	"github.com/btcsuite/btcd/btcec/v2/ellswift"
	"github.com/btcsuite/btcd/v2transport"

	"verif/harness/bip324ref"
	"verif/harness/simkit"
)

const propID = "C19"

func TestWorker(t *testing.T) {
	simkit.WorkerMain(t, simkit.Options{
		Engine: "v2sim",
		Real:   []string{"v2transport.Peer", "v2transport/chacha.go (FSChaCha20, FSChaCha20Poly1305)", "btcec/ellswift", "peer.Peer on the v2 transport: negotiation, readMessage/writeMessage v2 branches, wire's v2 message framing (peerlink runs)"},
		Stub:   []string{"byte stream between the endpoints (simstream: seeded chunking, delays, adversary)", "reference endpoint bip324ref as the other peer in modes M2/M3ref", "peerlink runs: the connection (simconn: torn writes, small reads, hang-up) and the remote node (bip324ref transport + the harness's own BIP324 message-id framing)"},
		Setup: func(t *testing.T) {
			// Anchor the reference implementation (and the secp256k1 code it
			// borrows) on the published vectors.  Failure = harness error.
			maxMul := 1
			if os.Getenv("VERIF_WORKER") == "0" || os.Getenv("VERIF_WORKER") == "" {
				maxMul = 0
			}
			if err := bip324ref.SelfCheck(maxMul); err != nil {
				// A published vector that disagrees with the REPOSITORY's own
				// ellswift / ECDH code is a violation of C19's last clause
				// (reported by every run); anything else is a harness error.
				if rm, ok := err.(*bip324ref.RepoMathError); ok {
					repoMathViolation = rm.Msg
					return
				}
				t.Fatalf("harness error: %v", err)
			}
		},
	}, run)
}

const (
	modeM1    = 0 // real<->real, no faults
	modeM2    = 1 // real<->reference, no faults
	modeM3rr  = 2 // real<->real with an adversary
	modeM3ref = 3 // real<->reference with an adversary / misbehaving reference
)

var modeNames = []string{"M1", "M2", "M3rr", "M3ref"}

var nets = []uint32{0xd9b4bef9, 0x0709110b, 0xdab5bffa, 0x40cf030a}

type span struct {
	start, end int
	ignore     bool
}

// layout is the planned shape of one direction's stream.
type layout struct {
	keyEnd, garbEnd, termEnd, hsEnd int
	hs                              []span
	app                             []span
}

type sim struct {
	r        *simkit.Run
	mode     int
	thorough bool
	eps      [2]*endpoint
	pipes    [2]*pipe // pipes[s] carries what endpoint s sends
	lay      [2]layout
	pool     []byte

	hsChunkMax, dataChunkMax int
	delayPermille            int

	faultKind  faultKind
	faultDir   int // sender index of the attacked direction
	faultClass string
	poison     [2]int // API-level fault: raw offset of the poisoned packet
	pktClass   [2]int
	gClass     [2]string
	sendCross  [2]int
}

// repoMathViolation is set when the published BIP324 vectors disagree with the
// repository's ElligatorSwift / ECDH code.
var repoMathViolation string

func run(r *simkit.Run) {
	r.MarkEpoch()
	if repoMathViolation != "" {
		r.Violate(propID, "ellswift-ecdh-equals-bip324-vectors", "", "%s", repoMathViolation)
	}
	if r.C.Bool(150, "peerlink") {
		// the peer's own use of the transport (peer/peer.go)
		runPeerLink(r)
		return
	}
	s := &sim{r: r, thorough: r.Tier == "thorough"}
	s.poison = [2]int{-1, -1}
	s.plan()
	defer s.cleanup()
	s.ellswiftChecks()
	s.start()
	s.loop()
	s.closeAndSettle()
	s.judge()
}

// ---------------------------------------------------------------------------
// Planning.

var garbageFixed = []int{0, 1, 15, 16, 17, 4094, 4095}

func (s *sim) drawGarbageLen(tag string) (int, string) {
	c := s.r.C
	k := simkit.Pick(c, tag, 4, 2, 1, 2, 1, 1, 1, 3, 2)
	switch {
	case k < len(garbageFixed):
		return garbageFixed[k], fmt.Sprint(garbageFixed[k])
	case k == 7:
		return simkit.Range(c, 18, 200, tag+".small"), "small"
	default:
		return simkit.Range(c, 201, 4093, tag+".any"), "mid"
	}
}

func (s *sim) contents(dir, i, n int) []byte {
	var b []byte
	if n <= len(s.pool)/2 {
		off := (i*977 + dir*31337) % (len(s.pool) - n)
		b = append([]byte(nil), s.pool[off:off+n]...)
	} else {
		b = bytes.Repeat(s.pool, n/len(s.pool)+1)[:n]
	}
	var tag [4]byte
	binary.LittleEndian.PutUint32(tag[:], uint32(i+1)|uint32(dir+1)<<30)
	copy(b, tag[:])
	return b
}

func (s *sim) plan() {
	r, c := s.r, s.r.C
	s.mode = simkit.Pick(c, "mode", 3, 4, 4, 3)
	net := nets[c.Intn(len(nets), "net")]
	realSide := -1 // both
	if s.mode == modeM2 || s.mode == modeM3ref {
		realSide = c.Intn(2, "realside")
	}
	seed := uint64(c.Intn(1<<30, "cryptoseed")) + 1
	cryptotest.SetGlobalRandom(r.T, seed)
	s.pool = c.Bytes(1<<15, "pool")

	s.pipes[0], s.pipes[1] = newPipe(), newPipe()
	var magic [4]byte
	binary.LittleEndian.PutUint32(magic[:], net)

	// packet-count classes
	w := []int{4, 4, 2, 1}
	if s.thorough {
		w = []int{2, 3, 2, 3}
	}
	s.pktClass[0] = simkit.Pick(c, "pktclass0", w...)
	if c.Bool(500, "pktclass.same") {
		s.pktClass[1] = s.pktClass[0]
	} else {
		s.pktClass[1] = simkit.Pick(c, "pktclass1", w...)
	}
	huge := c.Bool(2, "huge") && s.pktClass[0] <= 1 && s.pktClass[1] <= 1

	for x := 0; x < 2; x++ {
		e := &endpoint{idx: x, name: "AB"[x : x+1], initiator: x == 0, net: v2transport.BitcoinNet(net), magic: magic,
			isReal: realSide == -1 || realSide == x, refWrongTerm: -1, recvPoisonCall: -1}
		e.io = &end{rd: s.pipes[1-x], wr: s.pipes[x]}
		s.eps[x] = e
		e.garbageLen, s.gClass[x] = s.drawGarbageLen(fmt.Sprintf("garbage%d", x))
		nd := simkit.Pick(c, "ndecoys", 5, 3, 2, 1)
		if nd == 3 {
			nd = simkit.Range(c, 3, 6, "ndecoys.n")
		}
		for i := 0; i < nd; i++ {
			n := simkit.Range(c, 0, 40, "decoylen")
			if c.Bool(100, "decoylen.big") {
				n = simkit.Range(c, 41, 1500, "decoylen.n")
			}
			e.hsDecoys = append(e.hsDecoys, n)
		}
		var np int
		switch s.pktClass[x] {
		case 0:
			np = simkit.Range(c, 0, 4, "npkts")
		case 1:
			np = simkit.Range(c, 5, 60, "npkts")
		case 2:
			np = simkit.Range(c, 225, 300, "npkts")
		default:
			np = simkit.Range(c, 450, 700, "npkts")
		}
		// all per-packet decisions (size class, size, ignore flag) are expanded
		// from ONE recorded choice, so that the choice list stays short and
		// the minimiser can shrink the packet count and the seed directly
		pb := c.Bytes(4*np, "pkts.seed")
		bigBudget, midBudget := 2, 12
		wts := []int{8, 2, 4, 2, 1}
		if s.pktClass[x] >= 2 {
			wts = []int{12, 2, 2, 1, 0}
		}
		tot := 0
		for _, w := range wts {
			tot += w
		}
		for i := 0; i < np; i++ {
			b := pb[4*i : 4*i+4]
			k, v := 0, int(b[0])%tot
			for v >= wts[k] {
				v -= wts[k]
				k++
			}
			rv := int(b[1]) | int(b[2])<<8
			var n int
			switch k {
			case 0:
				n = 1 + rv%32
			case 1:
				n = 0
			case 2:
				n = 33 + rv%268
			case 3:
				n = 301 + rv%3796
				if midBudget--; midBudget < 0 {
					n = n % 33
				}
			case 4:
				n = 4097 + rv
				if bigBudget--; bigBudget < 0 {
					n = n % 33
				}
			}
			e.pkts = append(e.pkts, pkt{contents: s.contents(x, i, n), ignore: b[3] >= 218})
		}
		if np > 0 && c.Bool(150, "pkt.reserved") {
			// (a peer from the future: reserved header bits set)
			i := c.Intn(np, "pkt.reserved.idx")
			e.pkts[i].reserved = byte(1 + c.Intn(127, "pkt.reserved.bits"))
			if !e.isReal {
				r.Probe("reference packet with reserved header bits")
			}
		}
		if np > 0 && c.Bool(40, "pkt.oversize") {
			i := c.Intn(np, "pkt.oversize.idx")
			e.pkts[i].oversizeFirst = true
			if e.isReal {
				r.Probe("oversize packet refused before a normal one")
			}
		}
		if huge && x == c.Intn(2, "huge.side") && np > 0 {
			i := c.Intn(np, "huge.idx")
			e.pkts[i].contents = s.contents(x, i, bip324ref.MaxContentsLen)
			r.Probe("packet of 2^24-1 bytes")
		}
		if e.isReal {
			e.real = v2transport.NewPeer()
			e.real.UseReadWriter(e.io)
		} else {
			s.planRef(e)
		}
		s.lay[x] = s.planLayout(e)
	}

	// chunking and delays
	hsBytes := s.lay[0].hsEnd + s.lay[1].hsEnd
	appBytes := 0
	for x := 0; x < 2; x++ {
		if n := len(s.lay[x].app); n > 0 {
			appBytes += s.lay[x].app[n-1].end - s.lay[x].hsEnd
		}
	}
	hsOpts := []int{4096, 64, 17, 3, 1}
	k := simkit.Pick(c, "hschunk", 3, 3, 2, 2, 2)
	if hsBytes > 1500 && hsOpts[k] < 17 {
		k = 2
	}
	s.hsChunkMax = hsOpts[k]
	dOpts := []int{1 << 16, 1024, 64, 7, 1}
	k = simkit.Pick(c, "datachunk", 3, 3, 2, 2, 1)
	if appBytes > 3000 && dOpts[k] < 64 {
		k = 2
	}
	if appBytes > 200000 && dOpts[k] < 1024 {
		k = 1
	}
	if appBytes > 2000000 {
		k = 0
	}
	s.dataChunkMax = dOpts[k]
	s.delayPermille = []int{0, 30, 300}[simkit.Pick(c, "delay", 5, 3, 1)]
	r.FaultEnabled("chunking")
	if s.delayPermille > 0 {
		r.FaultEnabled("delay")
	}

	if s.mode == modeM3rr || s.mode == modeM3ref {
		s.planFault(realSide)
	}

	for x := 0; x < 2; x++ {
		e := s.eps[x]
		who := "real"
		if !e.isReal {
			who = "ref"
		}
		ign := 0
		for _, p := range e.pkts {
			if p.ignore {
				ign++
			}
		}
		r.Event("plan", "%s %s initiator=%v garbage=%d decoys=%v pkts=%d ignored=%d ref[early=%v late=%v near=%d wrongterm=%d wrongaad=%d]",
			e.name, who, e.initiator, e.garbageLen, e.hsDecoys, len(e.pkts), ign, e.refEarlyKey, e.refLateGarbage, e.refNearTermMode, e.refWrongTerm, e.refWrongAAD)
		gc := s.gClass[x]
		if gc == "1" || gc == "15" || gc == "16" || gc == "17" || gc == "small" {
			gc = "1-200"
		}
		r.Sig(fmt.Sprintf("%s:%s:g=%s:pc=%d:dec=%d", e.name, who, gc, s.pktClass[x], min(len(e.hsDecoys), 2)))
		if e.garbageLen == 0 {
			r.Probe("garbage_len_0")
		}
		if e.garbageLen == 4095 {
			r.Probe("garbage_len_4095")
		}
		if len(e.hsDecoys) > 0 {
			r.Probe("decoy during handshake")
		}
	}
	r.Event("plan", "mode=%s net=%08x hschunk=%d datachunk=%d delay=%d fault=%s dir=%d class=%s",
		modeNames[s.mode], net, s.hsChunkMax, s.dataChunkMax, s.delayPermille, s.faultKind, s.faultDir, s.faultClass)
	r.Sig(fmt.Sprintf("mode=%s fault=%s class=%s", modeNames[s.mode], s.faultKind, s.faultClass))
	r.Meta["mode"] = modeNames[s.mode]
	r.Meta["fault"] = s.faultKind.String() + "@" + s.faultClass
	r.Meta["garbage"] = fmt.Sprintf("%d/%d", s.eps[0].garbageLen, s.eps[1].garbageLen)
	r.Meta["packets"] = fmt.Sprintf("%d/%d", len(s.eps[0].pkts), len(s.eps[1].pkts))
	r.Meta["real"] = map[int]string{-1: "both", 0: "initiator", 1: "responder"}[realSide]
}

func (s *sim) planRef(e *endpoint) {
	c := s.r.C
	e.garbage = c.Bytes(e.garbageLen, "ref.garbage")
	// private key and ElligatorSwift encoding of the reference endpoint
	kb := c.Bytes(32, "ref.priv")
	allZero := true
	for _, b := range kb {
		if b != 0 {
			allZero = false
		}
	}
	if allZero {
		kb[31] = 1
	}
	priv, _ := btcec.PrivKeyFromBytes(kb)
	if priv.Key.IsZero() {
		kb[31] ^= 1
		priv, _ = btcec.PrivKeyFromBytes(kb)
	}
	x := bip324ref.PubX(priv)
	// encoding class: 0 random u; 1 small u sent as u+p; 2 u sent as 0 (=> u'=1);
	// 3 u sent as p (=> 0 => u'=1)
	// 4 the encoding starts with 4..15 bytes of the v1 prefix (a v2 peer all the same)
	class := simkit.Pick(c, "ref.uclass", 6, 2, 1, 1, 1)
	var enc [64]byte
	found := false
	for try := 0; try < 64 && !found; try++ {
		var u btcec.FieldVal
		var ub [32]byte
		switch class {
		case 0:
			copy(ub[:], c.Bytes(32, "ref.u"))
			if u.SetBytes(&ub) != 0 {
				u.Normalize()
			}
		case 1:
			u.SetInt(uint16(1 + c.Intn(60000, "ref.usmall") + try))
		case 4:
			copy(ub[:], c.Bytes(32, "ref.u"))
			v1 := bip324ref.V1Prefix(e.magic)
			k := 4 + c.Intn(12, "ref.v1-shared")
			copy(ub[:k], v1[:k])
			if ub[k] == v1[k] {
				ub[k] ^= 0x55
			}
			if u.SetBytes(&ub) != 0 {
				u.Normalize()
			}
		default:
			u.SetInt(1)
		}
		u.Normalize()
		if u.IsZero() {
			u.SetInt(1)
		}
		cases := []int{c.Intn(8, "ref.case")}
		if class >= 2 {
			cases = []int{0, 1, 2, 3, 4, 5, 6, 7}
		}
		for _, cs := range cases {
			uc, xc := u, *x
			t := ellswift.XSwiftECInv(&uc, &xc, cs)
			if t == nil {
				continue
			}
			ubytes := u.Bytes()
			switch class {
			case 1:
				// u + p as a 256-bit big-endian integer (u < 2^16 so it fits)
				copy(ub[:], addP(ubytes[:]))
			case 2:
				ub = [32]byte{}
			case 3:
				copy(ub[:], fieldP())
			default:
				ub = *ubytes
			}
			copy(enc[:32], ub[:])
			copy(enc[32:], t.Bytes()[:])
			found = true
			break
		}
		if class >= 2 && !found {
			class = 0 // x has no preimage with u=1: fall back to a random u
		}
	}
	if !found {
		u, t, err := ellswift.XElligatorSwift(x)
		if err != nil {
			panic(err)
		}
		copy(enc[:32], u.Bytes()[:])
		copy(enc[32:], t.Bytes()[:])
		class = 9
	}
	e.ref = &bip324ref.Endpoint{Initiating: e.initiator, Magic: e.magic, Priv: priv, EllswiftOurs: enc}
	s.r.Sig(fmt.Sprintf("ref.uclass=%d", class))
	if class == 1 || class == 2 || class == 3 {
		s.r.Probe("reference key encoding with u outside [1,p-1]")
	}
	if class == 4 {
		s.r.Probe("reference key encoding shares 4..15 bytes with the v1 prefix")
	}
	if c.Bool(300, "ref.version-contents") {
		// BIP324: the version packet's contents are reserved for future
		// extensions and must be ignored by the receiver
		e.verLen = simkit.Range(c, 1, 40, "ref.version-len")
		s.r.Probe("reference sends a version packet with non-empty contents")
	}
	// the first byte of an initiator's key must not look like a v1 magic byte
	// sequence; with a random key that has probability 2^-128.
	e.refEarlyKey = c.Bool(500, "ref.early")
	e.refLateGarbage = c.Bool(300, "ref.late")
	crafted := e.refLateGarbage || (!e.initiator && !e.refEarlyKey)
	if crafted && e.garbageLen >= 16 {
		e.refNearTermMode = simkit.Pick(c, "ref.near", 2, 1, 1, 1)
		e.refNearTermArg = c.Intn(128, "ref.neararg")
	}
}

func fieldP() []byte {
	p := make([]byte, 32)
	for i := range p {
		p[i] = 0xff
	}
	// p = 2^256 - 2^32 - 977
	p[27], p[28], p[29], p[30], p[31] = 0xfe, 0xff, 0xff, 0xfc, 0x2f
	return p
}

// addP returns b+p for a small 32-byte big-endian b (no overflow check needed
// for b < 2^32+977).
func addP(b []byte) []byte {
	p := fieldP()
	out := make([]byte, 32)
	carry := 0
	for i := 31; i >= 0; i-- {
		v := int(b[i]) + int(p[i]) + carry
		out[i] = byte(v)
		carry = v >> 8
	}
	if carry != 0 {
		panic("v2sim: u+p overflowed")
	}
	return out
}

func (s *sim) planLayout(e *endpoint) layout {
	var l layout
	l.keyEnd = 64
	l.garbEnd = 64 + e.garbageLen
	l.termEnd = l.garbEnd + 16
	off := l.termEnd
	for _, n := range e.hsDecoys {
		l.hs = append(l.hs, span{off, off + 20 + n, true})
		off += 20 + n
	}
	l.hs = append(l.hs, span{off, off + 20 + e.verLen, false})
	off += 20 + e.verLen
	l.hsEnd = off
	for _, p := range e.pkts {
		l.app = append(l.app, span{off, off + 20 + len(p.contents), p.ignore})
		off += 20 + len(p.contents)
	}
	return l
}

func (s *sim) planFault(realSide int) {
	r, c := s.r, s.r.C
	d := c.Intn(2, "fault.dir")
	if s.mode == modeM3ref {
		d = 1 - realSide // attack what the reference sends to the real endpoint
	}
	s.faultDir = d
	sender, victim := s.eps[d], s.eps[1-d]
	l := s.lay[d]
	wts := []int{0, 4, 2, 3, 3, 3, 2, 2, 1, 1, 0, 0}
	if s.mode == modeM3ref {
		wts[fWrongAADHandshake], wts[fWrongTerminator] = 2, 2
	}
	kind := faultKind(simkit.Pick(c, "fault.kind", wts...))
	if kind == fNone {
		kind = fBitflip
	}
	if (kind == fWrongAADSend || kind == fWrongAADRecv) && len(l.app) == 0 {
		kind = fBitflip
	}
	s.faultKind = kind
	r.FaultEnabled(kind.String())

	switch kind {
	case fWrongAADSend:
		k := c.Intn(len(l.app), "fault.pkt")
		a := c.Bytes(1+c.Intn(32, "fault.aadlen"), "fault.aad")
		sender.pkts[k].aad = a
		s.poison[d] = l.app[k].start + 3
		s.faultClass = "app-aad"
		if l.app[k].ignore {
			s.faultClass = "app-aad-ignored"
		}
		return
	case fWrongAADRecv:
		// receive call j starts at the packet after the j-th non-ignored one
		var starts []int
		starts = append(starts, 0)
		for i, sp := range l.app {
			if !sp.ignore {
				starts = append(starts, i+1)
			}
		}
		j := c.Intn(len(starts), "fault.call")
		victim.recvPoisonCall = j
		victim.recvPoisonAAD = c.Bytes(1+c.Intn(32, "fault.aadlen"), "fault.aad")
		if starts[j] < len(l.app) {
			s.poison[d] = l.app[starts[j]].start + 3
		}
		s.faultClass = "recv-aad"
		return
	case fWrongAADHandshake:
		v := 1 + c.Intn(5, "fault.aadvariant")
		if v == 5 && (sender.garbageLen == 0 || len(sender.hsDecoys) == 0) {
			v = 1
		}
		sender.refWrongAAD = v
		s.poison[d] = l.hs[0].start + 3
		if v == 5 {
			s.poison[d] = l.hs[1].start + 3
		}
		s.faultClass = fmt.Sprintf("hs-aad-v%d", v)
		return
	case fWrongTerminator:
		sender.refWrongTerm = c.Intn(16, "fault.termbyte")
		s.poison[d] = l.garbEnd + sender.refWrongTerm
		s.faultClass = "terminator"
		return
	}

	// byte-level fault: choose a region, then the exact bytes
	type region struct {
		name   string
		lo, hi int
		pk     []span // packets for whole-packet operations
		k      int
	}
	var regs []region
	var rw []int
	add := func(w int, rg region) { regs = append(regs, rg); rw = append(rw, w) }
	add(2, region{name: "key", lo: 0, hi: l.keyEnd})
	if l.garbEnd > l.keyEnd {
		add(2, region{name: "garbage", lo: l.keyEnd, hi: l.garbEnd})
	}
	add(3, region{name: "terminator", lo: l.garbEnd, hi: l.termEnd})
	add(3, region{name: "hs-packet", pk: l.hs, k: -1})
	if len(l.app) > 0 {
		add(6, region{name: "app-packet", pk: l.app, k: -1})
		add(1, region{name: "stream-end", lo: l.app[len(l.app)-1].end, hi: l.app[len(l.app)-1].end})
	}
	// packets next to a rekey boundary (global packet index, handshake
	// packets included)
	all := append(append([]span{}, l.hs...), l.app...)
	var near []int
	for _, gi := range []int{223, 224, 225, 222, 447, 448, 449, 671, 672} {
		if gi < len(all) {
			near = append(near, gi)
		}
	}
	if len(near) > 0 {
		add(4, region{name: "rekey-adjacent", pk: all, k: -2})
	}
	rg := regs[simkit.Pick(c, "fault.region", rw...)]
	whole := false
	s.faultClass = rg.name
	if rg.pk != nil {
		k := 0
		if rg.k == -2 {
			k = near[c.Intn(len(near), "fault.near")]
		} else {
			k = c.Intn(len(rg.pk), "fault.pkt")
		}
		rg.k = k
		sp := rg.pk[k]
		part := simkit.Pick(c, "fault.part", 2, 3, 2, 3)
		switch part {
		case 0:
			rg.lo, rg.hi = sp.start, sp.start+3
			s.faultClass += "/len"
		case 1:
			rg.lo, rg.hi = sp.start+3, sp.end-16
			s.faultClass += "/body"
		case 2:
			rg.lo, rg.hi = sp.end-16, sp.end
			s.faultClass += "/tag"
		default:
			rg.lo, rg.hi = sp.start, sp.end
			whole = true
			s.faultClass += "/whole"
		}
		if sp.ignore {
			s.faultClass += "/ignored"
		}
	}
	f := &streamFault{kind: kind}
	pos := func(incl bool) int {
		n := rg.hi - rg.lo
		if incl {
			n++
		}
		if n <= 0 {
			return rg.lo
		}
		return rg.lo + c.Intn(n, "fault.off")
	}
	smallLen := func(tag string) int {
		if c.Bool(150, tag+".big") {
			return 1 + c.Intn(3000, tag)
		}
		return 1 + c.Intn(48, tag)
	}
	switch kind {
	case fBitflip:
		f.off = pos(false)
		f.masks = []byte{1 << uint(c.Intn(8, "fault.bit"))}
	case fMultiflip:
		f.off = pos(false)
		f.masks = c.Bytes(2+c.Intn(7, "fault.nflip"), "fault.masks")
		f.masks[0] |= 1
	case fDropRange:
		if whole {
			f.off, f.l1 = rg.lo, rg.hi-rg.lo
		} else {
			f.off, f.l1 = pos(false), smallLen("fault.len")
		}
	case fDupRange:
		if whole {
			f.off, f.l1 = rg.lo, rg.hi-rg.lo
			g := c.Intn(4, "fault.gappkts")
			for i := 1; i <= g && rg.k+i < len(rg.pk); i++ {
				f.gap += rg.pk[rg.k+i].end - rg.pk[rg.k+i].start
			}
		} else {
			f.off, f.l1 = pos(false), smallLen("fault.len")
			if c.Bool(300, "fault.gap") {
				f.gap = c.Intn(200, "fault.gapn")
			}
		}
	case fSwapSegments:
		if whole {
			f.off, f.l1 = rg.lo, rg.hi-rg.lo
			if rg.k+1 < len(rg.pk) {
				f.l2 = rg.pk[rg.k+1].end - rg.pk[rg.k+1].start
			} else {
				f.l2 = 1 + c.Intn(20, "fault.len2")
			}
		} else {
			f.off, f.l1, f.l2 = pos(false), 1+c.Intn(40, "fault.len"), 1+c.Intn(40, "fault.len2")
		}
	case fTruncateClose:
		f.off = pos(true)
		if whole && c.Bool(500, "fault.atboundary") {
			f.off = rg.lo
		}
	case fInject:
		f.off = pos(true)
		if whole && c.Bool(500, "fault.atboundary") {
			f.off = rg.lo
		}
		f.payload = c.Bytes(1+c.Intn(40, "fault.injlen"), "fault.inj")
		f.payload[0] |= 1
		if c.Bool(300, "fault.reflect") {
			other := s.pipes[1-d]
			ol := s.lay[1-d]
			f.reflect = func() []byte {
				// a whole packet taken from the opposite direction
				if len(ol.app) > 0 {
					if b := other.rawCopy(ol.app[0].start, ol.app[0].end); len(b) == ol.app[0].end-ol.app[0].start {
						return b
					}
				}
				return other.rawCopy(ol.hs[0].start, ol.hs[0].end)
			}
			s.faultClass += "/reflect"
		}
	}
	s.pipes[d].flt = f
	r.Event("plan", "stream fault %s dir=%d off=%d l1=%d l2=%d gap=%d masks=%x inj=%d", kind, d, f.off, f.l1, f.l2, f.gap, f.masks, len(f.payload))
}

// ---------------------------------------------------------------------------
// ElligatorSwift checks on freshly generated keys (driver goroutine, before
// any endpoint draws from crypto/rand).

func (s *sim) ellswiftChecks() {
	r, c := s.r, s.r.C
	defer s.unreducedChecks()
	// (1) EllswiftCreate: the encoding decodes to the key's x coordinate,
	// and both sides of an exchange compute the same secret.
	privA, encA, err := ellswift.EllswiftCreate()
	if err != nil {
		panic(err)
	}
	privB, encB, err := ellswift.EllswiftCreate()
	if err != nil {
		panic(err)
	}
	s.checkDecode("A'", privA, encA)
	s.checkDecode("B'", privB, encB)
	s.checkECDH("fresh pair", privA, encA, privB, encB)
	// (2) XSwiftECInv followed by XSwiftEC is the identity on x, for every
	// case and seeded u.
	x := bip324ref.PubX(privA)
	var ub [32]byte
	copy(ub[:], c.Bytes(32, "es.u"))
	var u btcec.FieldVal
	if u.SetBytes(&ub) != 0 {
		u.Normalize()
	}
	u.Normalize()
	if u.IsZero() {
		u.SetInt(1)
	}
	hit := 0
	for cs := 0; cs < 8; cs++ {
		uc, xc := u, *x
		t := ellswift.XSwiftECInv(&uc, &xc, cs)
		if t == nil {
			continue
		}
		hit++
		uc2, tc := u, *t
		got, err := ellswift.XSwiftEC(&uc2, &tc)
		if err != nil || !got.Normalize().Equals(x) {
			r.Violate(propID, "xswiftec-inverse", "", "XSwiftEC(u, XSwiftECInv(u,x,case=%d)) != x: u=%x x=%x t=%x err=%v", cs, u.Bytes()[:], x.Bytes()[:], t.Bytes()[:], err)
		}
	}
	r.Count("xswiftec_inv_roundtrips", hit)
	// (3) the same at the edges of the field representation: u and x whose
	// 26-bit limbs are all-ones or close to it (carries and lazy reductions
	// inside the repository's field arithmetic are exercised by the
	// handshake of every peer whose key happens to look like that)
	edge := func(tag string) (btcec.FieldVal, bool) {
		var b [32]byte
		copy(b[:], c.Bytes(32, tag))
		k := uint32(c.Intn(1200, tag+".k"))
		low := uint32(1<<26-1) - k
		b[31], b[30], b[29] = byte(low), byte(low>>8), byte(low>>16)
		b[28] = b[28]&0xfc | byte(low>>24)
		if c.Bool(300, tag+".ones") {
			for i := 8; i < 28; i++ {
				b[i] = 0xff // more limbs all-ones
			}
		}
		var f btcec.FieldVal
		if f.SetBytes(&b) != 0 {
			f.Normalize()
		}
		f.Normalize()
		return f, !f.IsZero()
	}
	ue, ok := edge("es.edge.u")
	if !ok {
		return
	}
	for try := 0; try < 8; try++ {
		xe, ok := edge("es.edge.x")
		if !ok {
			continue
		}
		// on the curve?  x^3 + 7 must be a square
		var y2, y btcec.FieldVal
		y2.SquareVal(&xe).Mul(&xe).AddInt(7).Normalize()
		if !y.SquareRootVal(&y2) {
			continue
		}
		for cs := 0; cs < 8; cs++ {
			uc, xc := ue, xe
			t := ellswift.XSwiftECInv(&uc, &xc, cs)
			if t == nil {
				continue
			}
			uc2, tc := ue, *t
			got, err := ellswift.XSwiftEC(&uc2, &tc)
			if err != nil || !got.Normalize().Equals(&xe) {
				r.Violate(propID, "xswiftec-inverse", "", "XSwiftEC(u, XSwiftECInv(u,x,case=%d)) != x at a limb boundary: u=%x x=%x t=%x err=%v", cs, ue.Bytes()[:], xe.Bytes()[:], t.Bytes()[:], err)
			}
			r.Count("xswiftec_inv_roundtrips_at_limb_edges", 1)
		}
		break
	}
}

// unreducedChecks: an encoding half may be any 256-bit number; values of p
// and above stand for their residue.  ECDH on such an encoding must equal the
// x coordinate of priv * lift(XSwiftEC(u mod p, t mod p)), computed here from
// the definition with plain big-number reduction.
func (s *sim) unreducedChecks() {
	r, c := s.r, s.r.C
	priv, _, err := ellswift.EllswiftCreate()
	if err != nil {
		panic(err)
	}
	P := new(big.Int).SetBytes(fieldP())
	half := func(tag string) (enc [32]byte, red btcec.FieldVal) {
		v := new(big.Int)
		switch simkit.Pick(c, tag, 3, 3, 1, 1) {
		case 0: // small + p
			v.SetInt64(int64(1 + c.Intn(1<<30, tag+".small")))
			v.Add(v, P)
		case 1: // a reduced random value
			v.SetBytes(c.Bytes(32, tag+".rnd"))
			v.Mod(v, P)
		case 2: // exactly p
			v.Set(P)
		default: // 2^256-1
			v.Lsh(big.NewInt(1), 256).Sub(v, big.NewInt(1))
		}
		v.FillBytes(enc[:])
		var rb [32]byte
		new(big.Int).Mod(v, P).FillBytes(rb[:])
		red.SetBytes(&rb)
		red.Normalize()
		return
	}
	ue, uf := half("es.unred.u")
	te, tf := half("es.unred.t")
	var enc [64]byte
	copy(enc[:32], ue[:])
	copy(enc[32:], te[:])
	x, err := ellswift.XSwiftEC(&uf, &tf)
	if err != nil {
		return
	}
	x.Normalize()
	var y2, y btcec.FieldVal
	y2.SquareVal(x).Mul(x).AddInt(7).Normalize()
	if !y.SquareRootVal(&y2) {
		r.Violate(propID, "xswiftec-on-curve", "", "XSwiftEC(u=%x, t=%x) = %x is not the x coordinate of a curve point", uf.Bytes()[:], tf.Bytes()[:], x.Bytes()[:])
		return
	}
	y.Normalize()
	var pt, res btcec.JacobianPoint
	pt.X.Set(x)
	pt.Y.Set(&y)
	pt.Z.SetInt(1)
	btcec.ScalarMultNonConst(&priv.Key, &pt, &res)
	res.ToAffine()
	want := res.X.Bytes()
	got, gerr := ellswift.EllswiftECDHXOnly(enc, priv)
	if gerr != nil || !bytes.Equal(got[:], want[:]) {
		r.Violate(propID, "ellswift-unreduced-halves", "", "EllswiftECDHXOnly on the encoding u=%x t=%x gives %x (err=%v); by the definition (halves reduced mod p) it is %x", ue[:], te[:], got[:], gerr, want[:])
	}
	r.Count("ecdh_on_unreduced_encodings", 1)
}

func (s *sim) checkDecode(who string, priv *btcec.PrivateKey, enc [64]byte) {
	x := bip324ref.PubX(priv)
	got, err := bip324ref.DecodeEllswift(enc)
	if err != nil || !got.Normalize().Equals(x) {
		s.r.Violate(propID, "ellswift-decodes-to-x", "", "%s: XSwiftEC of the generated encoding %x is not the key's x coordinate %x (err=%v)", who, enc[:], x.Bytes()[:], err)
	}
	s.r.Count("ellswift_decodes_checked", 1)
}

func (s *sim) checkECDH(what string, privA *btcec.PrivateKey, encA [64]byte, privB *btcec.PrivateKey, encB [64]byte) {
	sa, errA := ellswift.V2Ecdh(privA, encB, encA, true)
	sb, errB := ellswift.V2Ecdh(privB, encA, encB, false)
	if errA != nil || errB != nil || *sa != *sb {
		s.r.Violate(propID, "ecdh-agree", "", "%s: V2Ecdh disagrees: initiator=%v responder=%v errs=%v/%v", what, sa, sb, errA, errB)
	}
	spec, err := bip324ref.SharedSecret(privA, encA, encB, true)
	if err != nil || !bytes.Equal(spec[:], sa[:]) {
		s.r.Violate(propID, "ecdh-equals-spec", "", "%s: V2Ecdh=%x, BIP324 v2_ecdh=%x (err=%v)", what, sa[:], spec[:], err)
	}
	s.r.Count("ecdh_pairs_checked", 1)
}

// ---------------------------------------------------------------------------
// Execution.

func (s *sim) start() {
	// A (initiator) draws its key and garbage from crypto/rand immediately;
	// B draws only after the first delivered byte: the order is fixed.
	go s.eps[0].goroutine()
	synctest.Wait()
	go s.eps[1].goroutine()
}

func (s *sim) cleanup() {
	s.pipes[0].closeNow()
	s.pipes[1].closeNow()
	synctest.Wait()
}

func digest8(b []byte) string {
	h := sha256.Sum256(b)
	return fmt.Sprintf("%x", h[:6])
}

func (s *sim) drainAll() {
	r := s.r
	for _, e := range s.eps {
		for _, o := range e.drain() {
			switch o.kind {
			case "hs":
				e.hsDone, e.hsOK, e.hsErr, e.hsConsume = true, o.err == "", o.err, o.consumed
				if !e.hsOK {
					e.dead = true
				}
				r.Event("hs", "%s phase=%s consumed=%d err=%q", e.name, o.phase, o.consumed, o.err)
			case "pkt":
				e.recvd = append(e.recvd, o)
				r.Event("recv", "%s #%d len=%d ign=%v consumed=%d %s", e.name, len(e.recvd)-1, len(o.data), o.ignored, o.consumed, digest8(o.data))
			case "err":
				oc := o
				e.recvErr = &oc
				e.dead = true
				r.Event("recv-err", "%s after=%d consumed=%d err=%q", e.name, len(e.recvd), o.consumed, o.err)
			case "panic":
				r.Event("panic", "%s %s", e.name, firstLine(o.err))
				r.Violate(propID, "no-panic", "", "endpoint %s panicked inside the transport: %s", e.name, o.err)
			case "harness-panic":
				panic("v2sim harness panic on endpoint goroutine " + e.name + ": " + o.err)
			}
		}
	}
}

func firstLine(s string) string {
	for i := 0; i < len(s); i++ {
		if s[i] == '\n' {
			return s[:i]
		}
	}
	return s
}

func (s *sim) loop() {
	r, c := s.r, s.r.C
	const (
		aDeliver0 = iota
		aDeliver1
		aSend0
		aSend1
	)
	steps := 0
	for {
		synctest.Wait()
		s.drainAll()
		s.pipes[0].pull(false)
		s.pipes[1].pull(false)
		var w [4]int
		for d := 0; d < 2; d++ {
			if s.pipes[d].pending() > 0 {
				w[aDeliver0+d] = 3
			}
			e := s.eps[d]
			if e.hsOK && e.nextPkt < len(e.pkts) && !s.eps[1-d].dead {
				w[aSend0+d] = 2
			}
		}
		if w[0]+w[1]+w[2]+w[3] == 0 {
			p0 := s.pipes[0].pull(true)
			p1 := s.pipes[1].pull(true)
			if p0 || p1 {
				continue
			}
			break
		}
		steps++
		a := simkit.Pick(c, "act", w[:]...)
		switch a {
		case aDeliver0, aDeliver1:
			d := a - aDeliver0
			p := s.pipes[d]
			avail := p.pending()
			cm := s.dataChunkMax
			if !s.eps[0].hsDone || !s.eps[1].hsDone {
				cm = s.hsChunkMax
			}
			// value 0 = the largest chunk the profile allows (fewest steps)
			n := min(cm, avail)
			n = n - c.Intn(n, "chunk")
			if n < avail {
				r.Fault("chunking")
			}
			p.deliver(n)
			r.Event("deliver", "dir=%d n=%d of=%d", d, n, avail)
		case aSend0, aSend1:
			x := a - aSend0
			e := s.eps[x]
			burst := 16 - c.Intn(16, "burst")
			for i := 0; i < burst && e.nextPkt < len(e.pkts); i++ {
				s.sendNext(e)
			}
		}
		if s.delayPermille > 0 && c.Bool(s.delayPermille, "delay?") {
			dl := time.Duration(1+c.Intn(5000, "delay.ms")) * time.Millisecond
			time.Sleep(dl)
			r.Fault("delay")
		}
	}
	r.Count("steps", steps)
}

func (s *sim) sendNext(e *endpoint) {
	r := s.r
	i := e.nextPkt
	p := e.pkts[i]
	e.nextPkt++
	ret, start, err := e.send(p)
	if err != nil {
		r.Violate(propID, "send-ok", "", "%s: V2EncPacket(len=%d, ignore=%v) failed: %v", e.name, len(p.contents), p.ignore, err)
	}
	want := 20 + len(p.contents)
	wrote := s.pipes[e.idx].rawCopy(start, start+want+1)
	if len(ret) != want || !bytes.Equal(wrote, ret) {
		r.Violate(propID, "ciphertext-equals-spec", "", "%s: packet #%d (len=%d): V2EncPacket returned %d bytes and wrote %d bytes, BIP324 prescribes %d", e.name, i, len(p.contents), len(ret), len(wrote), want)
	}
	e.sent = append(e.sent, sentRec{start: start, end: start + want, kind: 'a', idx: i, ignore: p.ignore, contents: p.contents})
	if len(p.aad) > 0 {
		r.Fault(fWrongAADSend.String())
	}
	r.Event("send", "%s #%d len=%d ign=%v aad=%d off=%d %s", e.name, i, len(p.contents), p.ignore, len(p.aad), start, digest8(ret))
	r.Count("packets_sent", 1)
	// rekey bookkeeping: handshake packets count too
	total := len(e.hsDecoys) + 1 + e.nextPkt
	if total%bip324ref.RekeyInterval == 0 {
		s.sendCross[e.idx]++
		r.Probe("rekey boundary crossed send")
		r.State("mode=%s role=%s send-epoch=%d g=%s", modeNames[s.mode], e.roleName(), total/bip324ref.RekeyInterval, s.gClass[e.idx])
	}
}

func (e *endpoint) roleName() string {
	k := "ref"
	if e.isReal {
		k = "real"
	}
	if e.initiator {
		return k + "-initiator"
	}
	return k + "-responder"
}

func (s *sim) closeAndSettle() {
	s.pipes[0].closeNow()
	s.pipes[1].closeNow()
	synctest.Wait()
	s.drainAll()
	s.r.Event("closed", "raw=%d/%d wire=%d/%d", len(s.pipes[0].raw), len(s.pipes[1].raw), len(s.pipes[0].wire), len(s.pipes[1].wire))
}

// ---------------------------------------------------------------------------
// Oracles.

func minPos(a, b int) int {
	if a < 0 {
		return b
	}
	if b < 0 || a < b {
		return a
	}
	return b
}

func (s *sim) judge() {
	r := s.r
	// hang: every endpoint must have returned once its input hit EOF
	for _, e := range s.eps {
		if !e.isDone() {
			r.Violate(propID, "terminates-after-eof", "", "endpoint %s (%s) is still blocked after its input stream was closed (hs done=%v, packets received=%d)", e.name, e.roleName(), e.hsDone, len(e.recvd))
		}
	}

	// effective first tampered offset per direction
	var dEff [2]int
	for d := 0; d < 2; d++ {
		dv := s.pipes[d].deviation()
		po := -1
		if s.poison[d] >= 0 && s.poison[d] < len(s.pipes[d].raw) {
			po = s.poison[d]
		}
		dEff[d] = minPos(dv, po)
		if f := s.pipes[d].flt; f != nil {
			if f.fired {
				r.Fault(f.kind.String())
			}
			r.Event("fault", "dir=%d kind=%s fired=%v clipped=%v deviation=%d", d, f.kind, f.fired, f.clipped, dv)
		}
		if po >= 0 && s.faultKind != fWrongAADSend {
			r.Fault(s.faultKind.String())
		}
	}
	r.Event("judge", "dEff=%v", dEff)

	// reconstruct what each sender put on the wire during its handshake
	for x, e := range s.eps {
		l := s.lay[x]
		rawN := len(s.pipes[x].raw)
		var hs []sentRec
		if rawN >= l.hsEnd {
			for i, sp := range l.hs {
				k := byte('d')
				if i == len(l.hs)-1 {
					k = 'v'
				}
				hs = append(hs, sentRec{start: sp.start, end: sp.end, kind: k, ignore: sp.ignore})
			}
		}
		e.sent = append(hs, e.sent...)
	}

	known := false
	for x, e := range s.eps {
		in := 1 - x // direction this endpoint reads
		peer := s.eps[in]
		lin := s.lay[in]
		dIn, dOut := dEff[in], dEff[x]
		keyFaultOut := dOut >= 0 && dOut < 64
		hsTampered := dIn >= 0 && dIn < lin.hsEnd
		who := fmt.Sprintf("%s (%s)", e.name, e.roleName())

		if !e.hsDone {
			r.Violate(propID, "terminates-after-eof", "", "%s never returned from its handshake", who)
		}
		switch {
		case hsTampered && e.hsOK:
			r.Violate(propID, "tampered-handshake-rejected", "", "%s completed the handshake although the bytes it was given differ from what the peer sent at stream offset %d (%s; fault %s/%s)", who, dIn, s.classify(in, dIn), s.faultKind, s.faultClass)
		case !hsTampered && !keyFaultOut && !e.hsOK:
			key := ""
			if e.isReal && peer.garbageLen == 4095 && e.hsErr == "no garbage term received" {
				key = "real-receiver-rejects-garbage-4095"
				r.Probe("known: 4095-byte garbage rejected by real receiver")
			}
			r.Violate(propID, "handshake-completes", key, "%s failed an untampered handshake: %q after consuming %d bytes (peer %s garbage=%d decoys=%v; own garbage=%d; mode %s)", who, e.hsErr, e.hsConsume, peer.roleName(), peer.garbageLen, peer.hsDecoys, e.garbageLen, modeNames[s.mode])
			known = true
		}
		if known {
			break
		}
		if e.hsOK {
			r.State("mode=%s role=%s hs-ok g=%s/%s", modeNames[s.mode], e.roleName(), s.gClass[x], s.gClass[in])
			if s.hsChunkMax == 1 {
				r.Probe("handshake completed on 1-byte chunks")
			}
		}

		// expected deliveries: application packets that lie entirely before
		// the first tampered byte
		var exp []sentRec
		var all []sentRec
		for _, sr := range peer.sent {
			if sr.kind != 'a' {
				continue
			}
			all = append(all, sr)
			if dIn < 0 || sr.end <= dIn {
				exp = append(exp, sr)
			}
		}
		filter := func(in []sentRec) []sentRec {
			if !e.isReal {
				return in
			}
			var out []sentRec
			for _, sr := range in {
				if !sr.ignore {
					out = append(out, sr)
				}
			}
			return out
		}
		expV, allV := filter(exp), filter(all)
		// (a) never altered / reordered / replayed / invented plaintext
		for i, o := range e.recvd {
			if i >= len(allV) {
				r.Violate(propID, "received-is-prefix-of-sent", "", "%s returned packet #%d (len=%d) but the peer sent only %d deliverable packets (fault %s/%s, first tampered offset %d)", who, i, len(o.data), len(allV), s.faultKind, s.faultClass, dIn)
			}
			sr := allV[i]
			if !bytes.Equal(o.data, sr.contents) || o.ignored != (sr.ignore && !e.isReal) {
				r.Violate(propID, "received-is-prefix-of-sent", "", "%s returned packet #%d len=%d ign=%v %s, but the peer's packet #%d is len=%d ign=%v %s (fault %s/%s, first tampered offset %d)", who, i, len(o.data), o.ignored, digest8(o.data), sr.idx, len(sr.contents), sr.ignore, digest8(sr.contents), s.faultKind, s.faultClass, dIn)
			}
		}
		// (b) nothing delivered from or after a tampered packet; everything
		// before it delivered
		if len(e.recvd) > len(expV) {
			sr := allV[len(expV)]
			r.Violate(propID, "error-on-tampered-stream", "", "%s returned %d packets but only %d lie before the first tampered byte (offset %d, %s): packet #%d at [%d,%d) was delivered from a tampered stream (fault %s/%s)", who, len(e.recvd), len(expV), dIn, s.classify(in, dIn), sr.idx, sr.start, sr.end, s.faultKind, s.faultClass)
		}
		if e.hsOK && len(e.recvd) < len(expV) {
			sr := expV[len(e.recvd)]
			oracle := "every-packet-received"
			r.Violate(propID, oracle, "", "%s received %d of the %d packets that were delivered untampered; missing packet #%d (len=%d) at stream [%d,%d); receive loop ended with %s (fault %s/%s, first tampered offset %d)", who, len(e.recvd), len(expV), sr.idx, len(sr.contents), sr.start, sr.end, e.errDesc(), s.faultKind, s.faultClass, dIn)
		}
		// (c) the read that consumed the tampered byte reported the error
		if e.hsOK {
			if e.recvErr == nil {
				r.Violate(propID, "terminates-after-eof", "", "%s: receive loop ended without an error after EOF", who)
			}
			if dIn >= 0 {
				for _, sr := range all {
					if dIn >= sr.start+3 && dIn < sr.end && e.recvErr.consumed > sr.end {
						r.Violate(propID, "error-at-tampered-packet", "", "%s: packet #%d [%d,%d) was tampered at offset %d (length field intact) but the receiver went on to consume %d bytes before reporting %q", who, sr.idx, sr.start, sr.end, dIn, e.recvErr.consumed, e.recvErr.err)
					}
				}
			}
		}
		// evidence
		if dIn >= 0 {
			cons := e.hsConsume
			if e.recvErr != nil {
				cons = e.recvErr.consumed
			}
			cl := s.classify(in, dIn)
			if cons >= dIn || (e.hsDone && !e.hsOK) {
				r.Count("fault_consumed", 1)
				r.Probe("fault consumed in " + cl)
				for _, w := range []string{"length field", "tag", "ignored packet", "body", "garbage terminator", "ellswift key"} {
					if strings.Contains(cl, w) {
						r.Probe("fault in " + w)
					}
				}
				if dIn < lin.hsEnd {
					r.Probe("fault in handshake")
				}
				r.Sig("consumed:" + cl)
				if e.hsOK || peer.hsOK {
					r.NonTrivial()
				}
			} else {
				r.Count("fault_not_consumed", 1)
			}
		}
		// receive-side rekey crossings
		if n := len(e.recvd); n > 0 && e.hsOK {
			last := allV[n-1]
			total := len(peer.hsDecoys) + 1 + last.idx + 1
			for k := 1; k <= total/bip324ref.RekeyInterval; k++ {
				r.Probe("rekey boundary crossed recv")
				r.State("mode=%s role=%s recv-epoch=%d g=%s", modeNames[s.mode], e.roleName(), k, s.gClass[in])
			}
			if total >= bip324ref.RekeyInterval {
				r.NonTrivial()
				r.Sig(fmt.Sprintf("%s:recv-epochs=%d", e.name, total/bip324ref.RekeyInterval))
			}
		}
	}
	if known {
		return
	}
	if dEff[0] < 0 && dEff[1] < 0 && (s.mode == modeM3rr || s.mode == modeM3ref) {
		r.Count("fault_not_effective", 1)
	}
	s.judgeKeysAndCiphertext(dEff)
}

func (e *endpoint) errDesc() string {
	if e.recvErr == nil {
		return "no error"
	}
	return fmt.Sprintf("%q after consuming %d bytes", e.recvErr.err, e.recvErr.consumed)
}

// classify names the part of direction d's planned stream that holds offset
// off.
func (s *sim) classify(d, off int) string {
	l := s.lay[d]
	part := func(sp span, pre string) string {
		p := "body"
		if off < sp.start+3 {
			p = "length field"
		} else if off >= sp.end-16 {
			p = "tag"
		}
		if sp.ignore {
			return pre + " ignored packet " + p
		}
		return pre + " packet " + p
	}
	switch {
	case off < l.keyEnd:
		return "ellswift key"
	case off < l.garbEnd:
		return "garbage"
	case off < l.termEnd:
		return "garbage terminator"
	}
	for i, sp := range l.hs {
		if off < sp.end {
			if i == len(l.hs)-1 {
				return part(sp, "version")
			}
			return part(sp, "handshake")
		}
	}
	for _, sp := range l.app {
		if off < sp.end {
			return part(sp, "app")
		}
	}
	return "end of stream"
}

// judgeKeysAndCiphertext: for every real sender, the complete byte stream it
// wrote must be what BIP324 prescribes for its private key, the peer key it
// was given, and the packets it was asked to send; its session id must be the
// BIP324 session id; XSwiftEC of its encoding must be its public key.
func (s *sim) judgeKeysAndCiphertext(dEff [2]int) {
	r := s.r
	var sid [2][]byte
	var privs [2]*btcec.PrivateKey
	var encs [2][64]byte
	for x, e := range s.eps {
		raw := s.pipes[x].raw
		if !e.isReal {
			privs[x] = e.ref.Priv
			encs[x] = e.ref.EllswiftOurs
			if e.ref.S != nil && e.hsOK {
				sid[x] = e.ref.S.Keys.SessionID[:]
			}
			continue
		}
		who := fmt.Sprintf("%s (%s)", e.name, e.roleName())
		if len(raw) == 0 {
			continue // never got far enough to generate a key
		}
		g := e.garbageLen
		if len(raw) < 64+g {
			r.Violate(propID, "ciphertext-equals-spec", "", "%s wrote %d bytes; key and %d bytes of garbage need %d", who, len(raw), g, 64+g)
		}
		priv := peerPriv(e.real)
		if priv == nil {
			panic("v2sim: real peer wrote a key but has no private key")
		}
		privs[x] = priv
		copy(encs[x][:], raw[:64])
		s.checkDecode(who, priv, encs[x])
		if len(raw) == 64+g {
			continue // never received the peer's key
		}
		in := s.pipes[1-x]
		if in.deliveredN < 64 {
			r.Violate(propID, "ciphertext-equals-spec", "", "%s sent handshake material (%d bytes) after receiving only %d bytes of the peer's key", who, len(raw), in.deliveredN)
		}
		var theirs [64]byte
		copy(theirs[:], in.wire[:64])
		sec, err := bip324ref.SharedSecret(priv, encs[x], theirs, e.initiator)
		if err != nil {
			panic(fmt.Sprintf("v2sim: reference ECDH failed: %v", err))
		}
		keys := bip324ref.DeriveKeys(sec[:], e.magic)
		sess := bip324ref.NewSession(keys, e.initiator)
		exp := append([]byte(nil), raw[:64+g]...)
		exp = append(exp, sess.SendGarbageTerm[:]...)
		bounds := []int{len(exp)}
		aad := raw[64 : 64+g]
		for _, n := range e.hsDecoys {
			exp = append(exp, sess.Send.EncPacket(make([]byte, n), aad, true)...)
			aad = nil
			bounds = append(bounds, len(exp))
		}
		exp = append(exp, sess.Send.EncPacket(make([]byte, e.verLen), aad, false)...)
		bounds = append(bounds, len(exp))
		for _, sr := range e.sent {
			if sr.kind != 'a' {
				continue
			}
			rsv := byte(0)
			if !e.isReal {
				rsv = e.pkts[sr.idx].reserved
			}
			exp = append(exp, sess.Send.EncPacketReserved(sr.contents, e.pkts[sr.idx].aad, sr.ignore, rsv)...)
			bounds = append(bounds, len(exp))
		}
		if !bytes.Equal(exp, raw) {
			i := 0
			for i < len(exp) && i < len(raw) && exp[i] == raw[i] {
				i++
			}
			pk := 0
			for pk < len(bounds) && bounds[pk] <= i {
				pk++
			}
			r.Violate(propID, "ciphertext-equals-spec", "", "%s: the bytes it wrote differ from what BIP324 prescribes at stream offset %d (%s; element %d after the garbage, counting terminator=0, handshake packets, then application packets; %d packets sent incl. handshake): wrote %d bytes, specification gives %d; real=%x spec=%x",
				who, i, s.classify(x, i), pk, len(bounds)-1, len(raw), len(exp), clip(raw, i), clip(exp, i))
		}
		r.Count("ciphertext_streams_checked", 1)
		r.Count("ciphertext_bytes_checked", len(raw))
		got := peerSessionID(e.real)
		if !bytes.Equal(got, keys.SessionID[:]) {
			r.Violate(propID, "session-id-equals-spec", "", "%s: session id %x, BIP324 prescribes %x", who, got, keys.SessionID[:])
		}
		if e.hsOK {
			sid[x] = got
		}
	}
	keysClean := (dEff[0] < 0 || dEff[0] >= 64) && (dEff[1] < 0 || dEff[1] >= 64)
	if keysClean && sid[0] != nil && sid[1] != nil && !bytes.Equal(sid[0], sid[1]) {
		r.Violate(propID, "session-ids-equal", "", "both handshakes completed but session ids differ: %x vs %x", sid[0], sid[1])
	}
	if keysClean && privs[0] != nil && privs[1] != nil && len(s.pipes[0].raw) >= 64 && len(s.pipes[1].raw) >= 64 {
		s.checkECDH("session keys", privs[0], encs[0], privs[1], encs[1])
	}
	if s.eps[0].hsOK && s.eps[1].hsOK {
		if s.sendCross[0]+s.sendCross[1] > 0 {
			r.NonTrivial()
		}
		r.Sig(fmt.Sprintf("send-epochs=%d/%d", s.sendCross[0], s.sendCross[1]))
	}
}

func clip(b []byte, at int) []byte {
	lo := at
	hi := at + 16
	if lo > len(b) {
		lo = len(b)
	}
	if hi > len(b) {
		hi = len(b)
	}
	return b[lo:hi]
}

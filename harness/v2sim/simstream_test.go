package v2sim

import (
	"io"
	"sync"
)

// simstream: an in-memory, harness-owned duplex byte stream.  One `pipe` per
// direction.  A pipe has three stages:
//
//	raw    everything the sender ever wrote (the original stream S); writes
//	       never block and never fail
//	wire   raw after the adversary's filter (the stream R the receiver will
//	       see); produced by pull() on the driver goroutine
//	inbox  the part of wire the pump has delivered and the receiver has not
//	       read yet; Read blocks (durably, on a sync.Cond) while it is empty
//
// All decisions (chunk sizes, which direction moves, when the filter acts)
// are taken by the driver goroutine from r.C at quiescent points only, so the
// byte sequence every endpoint observes is a pure function of the choices.

type faultKind int

const (
	fNone faultKind = iota
	fBitflip
	fMultiflip
	fDropRange
	fDupRange
	fSwapSegments
	fTruncateClose
	fInject
	// API-level faults (no byte filter)
	fWrongAADSend
	fWrongAADRecv
	fWrongAADHandshake
	fWrongTerminator
	numFaultKinds
)

var faultNames = [...]string{"none", "bitflip", "multiflip", "drop_range", "dup_range", "swap_segments",
	"truncate_close", "inject", "wrong_aad_send", "wrong_aad_recv", "wrong_aad_handshake", "wrong_terminator"}

func (k faultKind) String() string { return faultNames[k] }

// streamFault is one byte-level manipulation of one direction, in raw
// (original stream) offsets.
type streamFault struct {
	kind    faultKind
	off     int    // first affected raw offset
	l1, l2  int    // range lengths (drop/dup: l1; swap: l1,l2)
	gap     int    // dup: the copy is inserted gap bytes after the range
	masks   []byte // bitflip / multiflip xor masks, applied from off
	payload []byte // inject
	reflect func() []byte

	done    bool
	fired   bool
	clipped bool
}

type pipe struct {
	mu   sync.Mutex
	cond *sync.Cond

	raw  []byte
	wire []byte
	fpos int // raw bytes consumed by the filter
	// truncated: the adversary cut the stream; no more wire bytes will appear
	truncated bool
	flt       *streamFault

	deliveredN int // wire bytes handed to the receiver
	inbox      []byte
	consumed   int // bytes the receiver has read
	closed     bool
	writes     int
}

func newPipe() *pipe {
	p := &pipe{}
	p.cond = sync.NewCond(&p.mu)
	return p
}

// Write is called by the sending endpoint.
func (p *pipe) Write(b []byte) (int, error) {
	p.mu.Lock()
	p.raw = append(p.raw, b...)
	p.writes++
	p.mu.Unlock()
	return len(b), nil
}

// Read is called by the receiving endpoint.
func (p *pipe) Read(b []byte) (int, error) {
	p.mu.Lock()
	defer p.mu.Unlock()
	if len(b) == 0 {
		return 0, nil
	}
	for len(p.inbox) == 0 && !p.closed {
		p.cond.Wait()
	}
	if len(p.inbox) == 0 {
		return 0, io.EOF
	}
	n := copy(b, p.inbox)
	p.inbox = p.inbox[n:]
	p.consumed += n
	return n, nil
}

func (p *pipe) consumedNow() int {
	p.mu.Lock()
	defer p.mu.Unlock()
	return p.consumed
}

func (p *pipe) rawLen() int {
	p.mu.Lock()
	defer p.mu.Unlock()
	return len(p.raw)
}

// rawCopy returns raw[a:b] (clipped).
func (p *pipe) rawCopy(a, b int) []byte {
	p.mu.Lock()
	defer p.mu.Unlock()
	if b > len(p.raw) {
		b = len(p.raw)
	}
	if a >= b {
		return nil
	}
	return append([]byte(nil), p.raw[a:b]...)
}

// pull runs the adversary's filter over the raw bytes that have not passed it
// yet.  Driver goroutine only.  force resolves a stalled swap by clipping it
// to what is available.  Returns true if wire grew or the state changed.
func (p *pipe) pull(force bool) bool {
	p.mu.Lock()
	defer p.mu.Unlock()
	before := len(p.wire)
	stateBefore := p.truncated
	p.filter(force)
	return len(p.wire) != before || p.truncated != stateBefore
}

func (p *pipe) emitUntil(x int) {
	if x > len(p.raw) {
		x = len(p.raw)
	}
	if x > p.fpos {
		p.wire = append(p.wire, p.raw[p.fpos:x]...)
		p.fpos = x
	}
}

func (p *pipe) filter(force bool) {
	if p.truncated {
		p.fpos = len(p.raw)
		return
	}
	f := p.flt
	if f == nil || f.done || f.kind == fNone || f.kind >= fWrongAADSend {
		p.emitUntil(len(p.raw))
		return
	}
	p.emitUntil(f.off)
	if p.fpos < f.off {
		return
	}
	switch f.kind {
	case fBitflip, fMultiflip:
		for p.fpos < len(p.raw) && p.fpos < f.off+len(f.masks) {
			m := f.masks[p.fpos-f.off]
			p.wire = append(p.wire, p.raw[p.fpos]^m)
			if m != 0 {
				f.fired = true
			}
			p.fpos++
		}
		if p.fpos >= f.off+len(f.masks) {
			f.done = true
		}
	case fDropRange:
		end := f.off + f.l1
		if end > len(p.raw) {
			end = len(p.raw)
		}
		if end > p.fpos {
			f.fired = true
			p.fpos = end
		}
		if p.fpos >= f.off+f.l1 {
			f.done = true
		}
	case fDupRange:
		ins := f.off + f.l1 + f.gap
		p.emitUntil(ins)
		if p.fpos == ins {
			p.wire = append(p.wire, p.raw[f.off:f.off+f.l1]...)
			f.fired = true
			f.done = true
		} else if force && p.fpos >= f.off+f.l1 {
			// the stream ended before the planned insertion point:
			// replay at the end instead
			p.wire = append(p.wire, p.raw[f.off:f.off+f.l1]...)
			f.fired, f.done, f.clipped = true, true, true
		}
	case fInject:
		pl := f.payload
		if f.reflect != nil {
			if b := f.reflect(); len(b) > 0 {
				pl = b
			}
		}
		p.wire = append(p.wire, pl...)
		f.fired = len(pl) > 0
		f.done = true
	case fTruncateClose:
		p.truncated = true
		f.fired = true
		f.done = true
		p.fpos = len(p.raw)
		return
	case fSwapSegments:
		need := f.off + f.l1 + f.l2
		l2 := f.l2
		if len(p.raw) < need {
			if !force {
				return // stall: hold the first segment back
			}
			l2 = len(p.raw) - f.off - f.l1
			f.clipped = true
			if l2 <= 0 {
				f.done = true // nothing to swap with: abandoned
				break
			}
		}
		p.wire = append(p.wire, p.raw[f.off+f.l1:f.off+f.l1+l2]...)
		p.wire = append(p.wire, p.raw[f.off:f.off+f.l1]...)
		p.fpos = f.off + f.l1 + l2
		f.fired = true
		f.done = true
	}
	if f.done {
		p.emitUntil(len(p.raw))
	}
}

// stalled reports whether the filter is holding bytes back.
func (p *pipe) stalled() bool {
	p.mu.Lock()
	defer p.mu.Unlock()
	return !p.truncated && p.fpos < len(p.raw)
}

// pending returns the number of wire bytes not yet delivered.
func (p *pipe) pending() int {
	p.mu.Lock()
	defer p.mu.Unlock()
	return len(p.wire) - p.deliveredN
}

// deliver hands n more wire bytes to the receiver.  Driver goroutine only.
func (p *pipe) deliver(n int) {
	p.mu.Lock()
	p.inbox = append(p.inbox, p.wire[p.deliveredN:p.deliveredN+n]...)
	p.deliveredN += n
	if p.truncated && p.deliveredN == len(p.wire) {
		p.closed = true
	}
	p.cond.Broadcast()
	p.mu.Unlock()
}

// closeNow makes the receiver see EOF once the inbox is drained.
func (p *pipe) closeNow() {
	p.mu.Lock()
	p.closed = true
	p.cond.Broadcast()
	p.mu.Unlock()
}

// deviation returns the first offset at which the stream the receiver was
// given differs from the stream the sender wrote (a differing byte, a missing
// tail, or extra bytes after the end), or -1 if they are identical.
func (p *pipe) deviation() int {
	p.mu.Lock()
	defer p.mu.Unlock()
	n := len(p.raw)
	if len(p.wire) < n {
		n = len(p.wire)
	}
	for i := 0; i < n; i++ {
		if p.raw[i] != p.wire[i] {
			return i
		}
	}
	if len(p.raw) != len(p.wire) {
		return n
	}
	return -1
}

// end is one endpoint's view of the duplex stream.
type end struct {
	rd *pipe
	wr *pipe
}

func (e *end) Read(b []byte) (int, error)  { return e.rd.Read(b) }
func (e *end) Write(b []byte) (int, error) { return e.wr.Write(b) }

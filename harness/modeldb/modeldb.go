// Package modeldb is an in-memory reference implementation of the
// database.DB interface of github.com/btcsuite/btcd/database, written from the
// interface documentation (database/interface.go, doc.go, error.go).  It is the
// oracle of the storage property (C05) and the storage stub under the chain
// engine (C04 configuration A).
//
// Model choices where the interface is silent (all documented here so that a
// user of the model can avoid the ambiguous cases):
//
//   - A cursor walks the bucket's key/value pairs in byte order followed by its
//     nested buckets in byte order.  Seek positions among the key/value pairs
//     and falls through to the first nested bucket when no key is >= the seek
//     key.  (Workloads that name keys so that every key sorts before every
//     bucket name make this indistinguishable from one merged ordered map.)
//   - Block files are emulated only as arithmetic: a record is the serialized
//     block plus 12 bytes; a record that would make the current file exceed the
//     maximum size starts the next file; PruneBlocks(target) removes the oldest
//     files, accounting every file but the last as "maximum size", until the
//     accounted total is <= target and never removes the last file.
//   - BeenPruned is true once any file was ever removed (also inside the
//     transaction that prunes).
//   - Every successful Commit of a writable transaction is one entry of the
//     commit log, even when it changed nothing.
//
// The package has no dependence on the simulator kit.
package modeldb

import (
	"fmt"
	"sort"
	"sync"
	"sync/atomic"

	"github.com/btcsuite/btcd/btcutil/v2"
	"github.com/btcsuite/btcd/chainhash/v2"
	"github.com/btcsuite/btcd/database"
	"github.com/btcsuite/btcd/wire/v2"
)

const (
	dbType = "modeldb"

	// recordOverhead is network magic + length + checksum.
	recordOverhead = 12

	headerLen = wire.MaxBlockHeaderPayload
)

func dbErr(c database.ErrorCode, desc string) database.Error {
	return database.Error{ErrorCode: c, Description: desc}
}

// ---------------------------------------------------------------------------
// persistent state

type kv struct {
	k string
	v []byte
}

type sub struct {
	name string
	n    *node
}

// node is one bucket.  Nodes reachable from a committed state are immutable; a
// writable transaction clones a node (gen == tx.gen) before changing it.
type node struct {
	gen  uint64
	kvs  []kv
	subs []sub
}

func (n *node) clone(gen uint64) *node {
	c := &node{gen: gen}
	c.kvs = append(make([]kv, 0, len(n.kvs)+1), n.kvs...)
	c.subs = append(make([]sub, 0, len(n.subs)+1), n.subs...)
	return c
}

func (n *node) findKV(k string) (int, bool) {
	i := sort.Search(len(n.kvs), func(i int) bool { return n.kvs[i].k >= k })
	return i, i < len(n.kvs) && n.kvs[i].k == k
}

func (n *node) findSub(name string) (int, bool) {
	i := sort.Search(len(n.subs), func(i int) bool { return n.subs[i].name >= name })
	return i, i < len(n.subs) && n.subs[i].name == name
}

type blockRec struct {
	raw  []byte
	file uint32
	off  uint32
}

// FileInfo describes one emulated block file.
type FileInfo struct {
	Num  uint32
	Size uint32
}

type state struct {
	root    *node
	blocks  map[chainhash.Hash]*blockRec
	files   []FileInfo // ascending
	curFile uint32
	curOff  uint32
	pruned  bool
}

// ---------------------------------------------------------------------------
// DB

// DB is the model database.
type DB struct {
	mu          sync.Mutex // short critical sections only
	net         wire.BitcoinNet
	maxFileSize uint32
	closed      bool
	cur         *state
	log         []*state // log[n] = state after n commits
	openTxs     int
	wake        chan struct{} // closed and replaced whenever a tx ends
	writer      chan struct{} // capacity 1: single writer
}

var _ database.DB = (*DB)(nil)

// genCtr numbers transactions across all databases: states are shared between
// a database and its CrashPrefix/Clone copies, so the ownership mark of a node
// must be unique process-wide.
var genCtr atomic.Uint64

// New returns an empty, open model database.
func New(net wire.BitcoinNet, maxFileSize uint32) *DB {
	s := &state{root: &node{}, blocks: map[chainhash.Hash]*blockRec{}}
	return &DB{
		net: net, maxFileSize: maxFileSize, cur: s, log: []*state{s},
		wake: make(chan struct{}), writer: make(chan struct{}, 1),
	}
}

func fromStates(net wire.BitcoinNet, max uint32, log []*state) *DB {
	l := append([]*state(nil), log...)
	return &DB{
		net: net, maxFileSize: max, cur: l[len(l)-1], log: l,
		wake: make(chan struct{}), writer: make(chan struct{}, 1),
	}
}

// Commits returns the number of committed writable transactions.
func (d *DB) Commits() int {
	d.mu.Lock()
	defer d.mu.Unlock()
	return len(d.log) - 1
}

// CrashPrefix returns a new open database whose state is the one after the
// first n commits (0 <= n <= Commits()).  The receiver is not changed.
func (d *DB) CrashPrefix(n int) *DB {
	d.mu.Lock()
	defer d.mu.Unlock()
	if n < 0 || n >= len(d.log) {
		panic(fmt.Sprintf("modeldb: CrashPrefix(%d) out of range [0,%d]", n, len(d.log)-1))
	}
	return fromStates(d.net, d.maxFileSize, d.log[:n+1])
}

// Clone returns an independent open copy (same contents, same commit log).
func (d *DB) Clone() *DB {
	d.mu.Lock()
	defer d.mu.Unlock()
	return fromStates(d.net, d.maxFileSize, d.log)
}

// Reopen makes a closed database usable again (a clean Close loses nothing).
func (d *DB) Reopen() {
	d.mu.Lock()
	d.closed = false
	d.mu.Unlock()
}

// SetMaxFileSize changes the emulated block-file size limit for later commits.
func (d *DB) SetMaxFileSize(n uint32) {
	d.mu.Lock()
	d.maxFileSize = n
	d.mu.Unlock()
}

// MaxFileSize returns the emulated block-file size limit.
func (d *DB) MaxFileSize() uint32 {
	d.mu.Lock()
	defer d.mu.Unlock()
	return d.maxFileSize
}

// Files returns the emulated block files of the committed state.
func (d *DB) Files() []FileInfo {
	d.mu.Lock()
	defer d.mu.Unlock()
	return append([]FileInfo(nil), d.cur.files...)
}

// WriteCursor returns the emulated (file, offset) where the next block goes.
func (d *DB) WriteCursor() (uint32, uint32) {
	d.mu.Lock()
	defer d.mu.Unlock()
	return d.cur.curFile, d.cur.curOff
}

// BlockCount returns the number of fetchable blocks in the committed state.
func (d *DB) BlockCount() int {
	d.mu.Lock()
	defer d.mu.Unlock()
	return len(d.cur.blocks)
}

// BlockFile returns the emulated file number holding the block (committed
// state) and whether the block exists.
func (d *DB) BlockFile(h *chainhash.Hash) (uint32, bool) {
	d.mu.Lock()
	defer d.mu.Unlock()
	b, ok := d.cur.blocks[*h]
	if !ok {
		return 0, false
	}
	return b.file, true
}

// Type is part of database.DB.
func (d *DB) Type() string { return dbType }

func (d *DB) begin(writable bool) (*tx, error) {
	if writable {
		d.writer <- struct{}{} // blocks (durably) while another writer is open
	}
	d.mu.Lock()
	if d.closed {
		d.mu.Unlock()
		if writable {
			<-d.writer
		}
		return nil, dbErr(database.ErrDbNotOpen, "database is not open")
	}
	d.openTxs++
	t := &tx{db: d, writable: writable, gen: genCtr.Add(1), base: d.cur, root: d.cur.root, max: d.maxFileSize}
	d.mu.Unlock()
	return t, nil
}

// Begin is part of database.DB.
func (d *DB) Begin(writable bool) (database.Tx, error) {
	t, err := d.begin(writable)
	if err != nil {
		return nil, err
	}
	return t, nil
}

func rollbackOnPanic(t *tx) {
	if p := recover(); p != nil {
		t.managed = false
		_ = t.Rollback()
		panic(p)
	}
}

// View is part of database.DB.
func (d *DB) View(fn func(database.Tx) error) error {
	t, err := d.begin(false)
	if err != nil {
		return err
	}
	defer rollbackOnPanic(t)
	t.managed = true
	err = fn(t)
	t.managed = false
	if err != nil {
		_ = t.Rollback()
		return err
	}
	return t.Rollback()
}

// Update is part of database.DB.
func (d *DB) Update(fn func(database.Tx) error) error {
	t, err := d.begin(true)
	if err != nil {
		return err
	}
	defer rollbackOnPanic(t)
	t.managed = true
	err = fn(t)
	t.managed = false
	if err != nil {
		_ = t.Rollback()
		return err
	}
	return t.Commit()
}

// Close is part of database.DB.  It blocks until every transaction ended.
func (d *DB) Close() error {
	for {
		d.mu.Lock()
		if d.closed {
			d.mu.Unlock()
			return dbErr(database.ErrDbNotOpen, "database is not open")
		}
		if d.openTxs == 0 {
			d.closed = true
			d.mu.Unlock()
			return nil
		}
		w := d.wake
		d.mu.Unlock()
		<-w
	}
}

func (d *DB) endTx(t *tx) {
	d.mu.Lock()
	d.openTxs--
	close(d.wake)
	d.wake = make(chan struct{})
	d.mu.Unlock()
	if t.writable {
		<-d.writer
	}
}

// ---------------------------------------------------------------------------
// transaction

type pendingBlock struct {
	hash chainhash.Hash
	raw  []byte
}

type tx struct {
	db       *DB
	writable bool
	managed  bool
	closed   bool
	gen      uint64
	base     *state
	root     *node
	max      uint32

	pendingIdx  map[chainhash.Hash]int
	pendingList []pendingBlock
	delFiles    map[uint32]struct{}
	delBlocks   map[chainhash.Hash]struct{}
}

var _ database.Tx = (*tx)(nil)

func (t *tx) checkClosed() error {
	if t.closed {
		return dbErr(database.ErrTxClosed, "database tx is closed")
	}
	return nil
}

func (t *tx) checkWritable(what string) error {
	if !t.writable {
		return dbErr(database.ErrTxNotWritable, what+" requires a writable database transaction")
	}
	return nil
}

// resolve returns the node at path in this transaction's view (nil if absent).
func (t *tx) resolve(path []string) *node {
	n := t.root
	for _, name := range path {
		i, ok := n.findSub(name)
		if !ok {
			return nil
		}
		n = n.subs[i].n
	}
	return n
}

// mutable returns the node at path, cloned as needed so that it (and the path
// to it) is owned by this transaction.
func (t *tx) mutable(path []string) *node {
	if t.root.gen != t.gen {
		t.root = t.root.clone(t.gen)
	}
	n := t.root
	for _, name := range path {
		i, ok := n.findSub(name)
		if !ok {
			return nil
		}
		c := n.subs[i].n
		if c.gen != t.gen {
			c = c.clone(t.gen)
			n.subs[i].n = c
		}
		n = c
	}
	return n
}

// Metadata is part of database.Tx.
func (t *tx) Metadata() database.Bucket { return &bucket{t: t} }

func (t *tx) blockBytes(h *chainhash.Hash) ([]byte, bool) {
	if i, ok := t.pendingIdx[*h]; ok {
		return t.pendingList[i].raw, true
	}
	if _, gone := t.delBlocks[*h]; gone {
		return nil, false
	}
	if b, ok := t.base.blocks[*h]; ok {
		return b.raw, true
	}
	return nil, false
}

// StoreBlock is part of database.Tx.
func (t *tx) StoreBlock(block *btcutil.Block) error {
	if err := t.checkClosed(); err != nil {
		return err
	}
	if err := t.checkWritable("store block"); err != nil {
		return err
	}
	h := block.Hash()
	if _, ok := t.blockBytes(h); ok {
		return dbErr(database.ErrBlockExists, fmt.Sprintf("block %s already exists", h))
	}
	raw, err := block.Bytes()
	if err != nil {
		return database.Error{ErrorCode: database.ErrDriverSpecific,
			Description: fmt.Sprintf("failed to get serialized bytes for block %s", h), Err: err}
	}
	if t.pendingIdx == nil {
		t.pendingIdx = map[chainhash.Hash]int{}
	}
	t.pendingIdx[*h] = len(t.pendingList)
	t.pendingList = append(t.pendingList, pendingBlock{hash: *h, raw: append([]byte(nil), raw...)})
	return nil
}

// HasBlock is part of database.Tx.
func (t *tx) HasBlock(h *chainhash.Hash) (bool, error) {
	if err := t.checkClosed(); err != nil {
		return false, err
	}
	_, ok := t.blockBytes(h)
	return ok, nil
}

// HasBlocks is part of database.Tx.
func (t *tx) HasBlocks(hashes []chainhash.Hash) ([]bool, error) {
	if err := t.checkClosed(); err != nil {
		return nil, err
	}
	out := make([]bool, len(hashes))
	for i := range hashes {
		_, out[i] = t.blockBytes(&hashes[i])
	}
	return out, nil
}

func (t *tx) region(h *chainhash.Hash, off, n uint32) ([]byte, error) {
	raw, ok := t.blockBytes(h)
	if !ok {
		return nil, dbErr(database.ErrBlockNotFound, fmt.Sprintf("block %s does not exist", h))
	}
	end := off + n
	if end < off || end > uint32(len(raw)) {
		return nil, dbErr(database.ErrBlockRegionInvalid, fmt.Sprintf(
			"block %s region offset %d, length %d exceeds block length of %d", h, off, n, len(raw)))
	}
	return raw[off:end:end], nil
}

// FetchBlockHeader is part of database.Tx.
func (t *tx) FetchBlockHeader(h *chainhash.Hash) ([]byte, error) {
	if err := t.checkClosed(); err != nil {
		return nil, err
	}
	return t.region(h, 0, headerLen)
}

// FetchBlockHeaders is part of database.Tx.
func (t *tx) FetchBlockHeaders(hashes []chainhash.Hash) ([][]byte, error) {
	if err := t.checkClosed(); err != nil {
		return nil, err
	}
	out := make([][]byte, len(hashes))
	for i := range hashes {
		b, err := t.region(&hashes[i], 0, headerLen)
		if err != nil {
			return nil, err
		}
		out[i] = b
	}
	return out, nil
}

// FetchBlock is part of database.Tx.
func (t *tx) FetchBlock(h *chainhash.Hash) ([]byte, error) {
	if err := t.checkClosed(); err != nil {
		return nil, err
	}
	raw, ok := t.blockBytes(h)
	if !ok {
		return nil, dbErr(database.ErrBlockNotFound, fmt.Sprintf("block %s does not exist", h))
	}
	return raw, nil
}

// FetchBlocks is part of database.Tx.
func (t *tx) FetchBlocks(hashes []chainhash.Hash) ([][]byte, error) {
	if err := t.checkClosed(); err != nil {
		return nil, err
	}
	out := make([][]byte, len(hashes))
	for i := range hashes {
		b, err := t.FetchBlock(&hashes[i])
		if err != nil {
			return nil, err
		}
		out[i] = b
	}
	return out, nil
}

// FetchBlockRegion is part of database.Tx.
func (t *tx) FetchBlockRegion(r *database.BlockRegion) ([]byte, error) {
	if err := t.checkClosed(); err != nil {
		return nil, err
	}
	return t.region(r.Hash, r.Offset, r.Len)
}

// FetchBlockRegions is part of database.Tx.
func (t *tx) FetchBlockRegions(rs []database.BlockRegion) ([][]byte, error) {
	if err := t.checkClosed(); err != nil {
		return nil, err
	}
	out := make([][]byte, len(rs))
	for i := range rs {
		b, err := t.region(rs[i].Hash, rs[i].Offset, rs[i].Len)
		if err != nil {
			return nil, err
		}
		out[i] = b
	}
	return out, nil
}

// liveFiles returns the emulated files in this transaction's view (committed
// files minus the ones an earlier PruneBlocks of this transaction removed).
func (t *tx) liveFiles() []FileInfo {
	if len(t.delFiles) == 0 {
		return t.base.files
	}
	out := make([]FileInfo, 0, len(t.base.files))
	for _, f := range t.base.files {
		if _, gone := t.delFiles[f.Num]; !gone {
			out = append(out, f)
		}
	}
	return out
}

// PruneBlocks is part of database.Tx.
func (t *tx) PruneBlocks(targetSize uint64) ([]chainhash.Hash, error) {
	if err := t.checkClosed(); err != nil {
		return nil, err
	}
	if err := t.checkWritable("prune blocks"); err != nil {
		return nil, err
	}
	max := uint64(t.max)
	if targetSize < max {
		return nil, fmt.Errorf("got target size of %d but it must be greater than %d, "+
			"the max size of a single block file", targetSize, max)
	}
	files := t.liveFiles()
	if len(files) <= 1 {
		return nil, nil
	}
	first, last := files[0].Num, files[len(files)-1].Num
	total := uint64(files[len(files)-1].Size) + max*uint64(last-first)
	if total <= targetSize {
		return nil, nil
	}
	gone := map[uint32]struct{}{}
	for i := first; i < last; i++ {
		gone[i] = struct{}{}
		total -= max
		if total <= targetSize {
			break
		}
	}
	if t.delFiles == nil {
		t.delFiles = map[uint32]struct{}{}
		t.delBlocks = map[chainhash.Hash]struct{}{}
	}
	for f := range gone {
		t.delFiles[f] = struct{}{}
	}
	var out []chainhash.Hash
	for h, b := range t.base.blocks {
		if _, already := t.delBlocks[h]; already {
			continue
		}
		if _, hit := gone[b.file]; hit {
			t.delBlocks[h] = struct{}{}
			out = append(out, h)
		}
	}
	sort.Slice(out, func(i, j int) bool { return string(out[i][:]) < string(out[j][:]) })
	return out, nil
}

// BeenPruned is part of database.Tx.
func (t *tx) BeenPruned() (bool, error) {
	if err := t.checkClosed(); err != nil {
		return false, err
	}
	return t.base.pruned || len(t.delFiles) > 0, nil
}

func (t *tx) close() {
	t.closed = true
	t.pendingIdx, t.pendingList, t.delFiles, t.delBlocks = nil, nil, nil, nil
	t.db.endTx(t)
}

// Commit is part of database.Tx.
func (t *tx) Commit() error {
	if t.managed {
		t.close()
		panic("managed transaction commit not allowed")
	}
	if err := t.checkClosed(); err != nil {
		return err
	}
	defer t.close()
	if !t.writable {
		return dbErr(database.ErrTxNotWritable, "Commit requires a writable database transaction")
	}
	ns := &state{
		root: t.root, blocks: t.base.blocks, files: t.base.files,
		curFile: t.base.curFile, curOff: t.base.curOff, pruned: t.base.pruned,
	}
	if len(t.delFiles) > 0 || len(t.pendingList) > 0 {
		ns.blocks = make(map[chainhash.Hash]*blockRec, len(t.base.blocks)+len(t.pendingList))
		for h, b := range t.base.blocks {
			if _, gone := t.delBlocks[h]; !gone {
				ns.blocks[h] = b
			}
		}
		ns.files = append([]FileInfo(nil), t.liveFiles()...)
		if len(t.delFiles) > 0 {
			ns.pruned = true
		}
	}
	for _, pb := range t.pendingList {
		full := uint32(len(pb.raw)) + recordOverhead
		final := ns.curOff + full
		if final < ns.curOff || final > t.max {
			ns.curFile++
			ns.curOff = 0
		}
		if n := len(ns.files); n == 0 || ns.files[n-1].Num != ns.curFile {
			ns.files = append(ns.files, FileInfo{Num: ns.curFile})
		}
		ns.blocks[pb.hash] = &blockRec{raw: pb.raw, file: ns.curFile, off: ns.curOff}
		ns.curOff += full
		ns.files[len(ns.files)-1].Size = ns.curOff
	}
	d := t.db
	d.mu.Lock()
	d.cur = ns
	d.log = append(d.log, ns)
	d.mu.Unlock()
	return nil
}

// Rollback is part of database.Tx.
func (t *tx) Rollback() error {
	if t.managed {
		t.close()
		panic("managed transaction rollback not allowed")
	}
	if err := t.checkClosed(); err != nil {
		return err
	}
	t.close()
	return nil
}

// ---------------------------------------------------------------------------
// bucket

type bucket struct {
	t    *tx
	path []string
}

var _ database.Bucket = (*bucket)(nil)

func (b *bucket) child(name string) *bucket {
	p := make([]string, len(b.path)+1)
	copy(p, b.path)
	p[len(b.path)] = name
	return &bucket{t: b.t, path: p}
}

// Bucket is part of database.Bucket.
func (b *bucket) Bucket(key []byte) database.Bucket {
	if b.t.closed {
		return nil
	}
	n := b.t.resolve(b.path)
	if n == nil {
		return nil
	}
	if _, ok := n.findSub(string(key)); !ok {
		return nil
	}
	return b.child(string(key))
}

// CreateBucket is part of database.Bucket.
func (b *bucket) CreateBucket(key []byte) (database.Bucket, error) {
	if err := b.t.checkClosed(); err != nil {
		return nil, err
	}
	if err := b.t.checkWritable("create bucket"); err != nil {
		return nil, err
	}
	if len(key) == 0 {
		return nil, dbErr(database.ErrBucketNameRequired, "create bucket requires a key")
	}
	n := b.t.mutable(b.path)
	if n == nil {
		return nil, dbErr(database.ErrBucketNotFound, "parent bucket does not exist")
	}
	name := string(key)
	i, ok := n.findSub(name)
	if ok {
		return nil, dbErr(database.ErrBucketExists, "bucket already exists")
	}
	if _, isKey := n.findKV(name); isKey {
		return nil, dbErr(database.ErrIncompatibleValue, "key exists and is not a bucket")
	}
	n.subs = append(n.subs, sub{})
	copy(n.subs[i+1:], n.subs[i:])
	n.subs[i] = sub{name: name, n: &node{gen: b.t.gen}}
	return b.child(name), nil
}

// CreateBucketIfNotExists is part of database.Bucket.
func (b *bucket) CreateBucketIfNotExists(key []byte) (database.Bucket, error) {
	if err := b.t.checkClosed(); err != nil {
		return nil, err
	}
	if err := b.t.checkWritable("create bucket"); err != nil {
		return nil, err
	}
	if len(key) == 0 {
		return nil, dbErr(database.ErrBucketNameRequired, "create bucket requires a key")
	}
	if c := b.Bucket(key); c != nil {
		return c, nil
	}
	return b.CreateBucket(key)
}

// DeleteBucket is part of database.Bucket.
func (b *bucket) DeleteBucket(key []byte) error {
	if err := b.t.checkClosed(); err != nil {
		return err
	}
	if err := b.t.checkWritable("delete bucket"); err != nil {
		return err
	}
	n := b.t.resolve(b.path)
	if n == nil {
		return dbErr(database.ErrBucketNotFound, "bucket does not exist")
	}
	name := string(key)
	if _, ok := n.findSub(name); !ok {
		return dbErr(database.ErrBucketNotFound, fmt.Sprintf("bucket %q does not exist", key))
	}
	n = b.t.mutable(b.path)
	i, _ := n.findSub(name)
	n.subs = append(n.subs[:i], n.subs[i+1:]...)
	return nil
}

// ForEach is part of database.Bucket.
func (b *bucket) ForEach(fn func(k, v []byte) error) error {
	if err := b.t.checkClosed(); err != nil {
		return err
	}
	n := b.t.resolve(b.path)
	if n == nil {
		return nil
	}
	kvs := n.kvs
	for i := range kvs {
		if err := fn([]byte(kvs[i].k), kvs[i].v); err != nil {
			return err
		}
	}
	return nil
}

// ForEachBucket is part of database.Bucket.
func (b *bucket) ForEachBucket(fn func(k []byte) error) error {
	if err := b.t.checkClosed(); err != nil {
		return err
	}
	n := b.t.resolve(b.path)
	if n == nil {
		return nil
	}
	subs := n.subs
	for i := range subs {
		if err := fn([]byte(subs[i].name)); err != nil {
			return err
		}
	}
	return nil
}

// Cursor is part of database.Bucket.
func (b *bucket) Cursor() database.Cursor { return &cursor{b: b} }

// Writable is part of database.Bucket.
func (b *bucket) Writable() bool { return b.t.writable }

// Put is part of database.Bucket.
func (b *bucket) Put(key, value []byte) error {
	if err := b.t.checkClosed(); err != nil {
		return err
	}
	if err := b.t.checkWritable("setting a key"); err != nil {
		return err
	}
	if len(key) == 0 {
		return dbErr(database.ErrKeyRequired, "put requires a key")
	}
	n := b.t.mutable(b.path)
	if n == nil {
		return dbErr(database.ErrBucketNotFound, "bucket does not exist")
	}
	k := string(key)
	if _, isBucket := n.findSub(k); isBucket {
		return dbErr(database.ErrIncompatibleValue, "key is the same as an existing bucket")
	}
	// a key that exists but has no value assigned reads back as an empty
	// slice, never nil.
	v := append(make([]byte, 0, len(value)), value...)
	i, ok := n.findKV(k)
	if ok {
		n.kvs[i].v = v
		return nil
	}
	n.kvs = append(n.kvs, kv{})
	copy(n.kvs[i+1:], n.kvs[i:])
	n.kvs[i] = kv{k: k, v: v}
	return nil
}

// Get is part of database.Bucket.
func (b *bucket) Get(key []byte) []byte {
	if b.t.closed || len(key) == 0 {
		return nil
	}
	n := b.t.resolve(b.path)
	if n == nil {
		return nil
	}
	if i, ok := n.findKV(string(key)); ok {
		return n.kvs[i].v
	}
	return nil
}

// Delete is part of database.Bucket.
func (b *bucket) Delete(key []byte) error {
	if err := b.t.checkClosed(); err != nil {
		return err
	}
	if err := b.t.checkWritable("deleting a value"); err != nil {
		return err
	}
	if len(key) == 0 {
		return dbErr(database.ErrKeyRequired, "delete requires a key")
	}
	n := b.t.resolve(b.path)
	if n == nil {
		return nil
	}
	k := string(key)
	if _, isBucket := n.findSub(k); isBucket {
		return dbErr(database.ErrIncompatibleValue, "key is the same as an existing bucket")
	}
	if _, ok := n.findKV(k); !ok {
		return nil
	}
	n = b.t.mutable(b.path)
	i, _ := n.findKV(k)
	n.kvs = append(n.kvs[:i], n.kvs[i+1:]...)
	return nil
}

// ---------------------------------------------------------------------------
// cursor

// cursor walks keys (byte order) then nested buckets (byte order).  It keeps
// its position by name so Cursor.Delete does not invalidate it.
type cursor struct {
	b     *bucket
	valid bool
	isSub bool
	name  string
	val   []byte
}

var _ database.Cursor = (*cursor)(nil)

// Bucket is part of database.Cursor.
func (c *cursor) Bucket() database.Bucket {
	if c.b.t.closed {
		return nil
	}
	return c.b
}

func (c *cursor) node() *node {
	if c.b.t.closed {
		return nil
	}
	return c.b.t.resolve(c.b.path)
}

func (c *cursor) setKV(n *node, i int) bool {
	c.valid, c.isSub, c.name, c.val = true, false, n.kvs[i].k, n.kvs[i].v
	return true
}

func (c *cursor) setSub(n *node, i int) bool {
	c.valid, c.isSub, c.name, c.val = true, true, n.subs[i].name, nil
	return true
}

func (c *cursor) exhaust() bool {
	c.valid, c.isSub, c.name, c.val = false, false, "", nil
	return false
}

// First is part of database.Cursor.
func (c *cursor) First() bool {
	n := c.node()
	if n == nil {
		return c.exhaust()
	}
	if len(n.kvs) > 0 {
		return c.setKV(n, 0)
	}
	if len(n.subs) > 0 {
		return c.setSub(n, 0)
	}
	return c.exhaust()
}

// Last is part of database.Cursor.
func (c *cursor) Last() bool {
	n := c.node()
	if n == nil {
		return c.exhaust()
	}
	if len(n.subs) > 0 {
		return c.setSub(n, len(n.subs)-1)
	}
	if len(n.kvs) > 0 {
		return c.setKV(n, len(n.kvs)-1)
	}
	return c.exhaust()
}

// Next is part of database.Cursor.
func (c *cursor) Next() bool {
	n := c.node()
	if n == nil || !c.valid {
		return c.exhaust()
	}
	if !c.isSub {
		i := sort.Search(len(n.kvs), func(i int) bool { return n.kvs[i].k > c.name })
		if i < len(n.kvs) {
			return c.setKV(n, i)
		}
		if len(n.subs) > 0 {
			return c.setSub(n, 0)
		}
		return c.exhaust()
	}
	i := sort.Search(len(n.subs), func(i int) bool { return n.subs[i].name > c.name })
	if i < len(n.subs) {
		return c.setSub(n, i)
	}
	return c.exhaust()
}

// Prev is part of database.Cursor.
func (c *cursor) Prev() bool {
	n := c.node()
	if n == nil || !c.valid {
		return c.exhaust()
	}
	if c.isSub {
		i := sort.Search(len(n.subs), func(i int) bool { return n.subs[i].name >= c.name })
		if i > 0 {
			return c.setSub(n, i-1)
		}
		if len(n.kvs) > 0 {
			return c.setKV(n, len(n.kvs)-1)
		}
		return c.exhaust()
	}
	i := sort.Search(len(n.kvs), func(i int) bool { return n.kvs[i].k >= c.name })
	if i > 0 {
		return c.setKV(n, i-1)
	}
	return c.exhaust()
}

// Seek is part of database.Cursor.
func (c *cursor) Seek(seek []byte) bool {
	n := c.node()
	if n == nil {
		return c.exhaust()
	}
	s := string(seek)
	i := sort.Search(len(n.kvs), func(i int) bool { return n.kvs[i].k >= s })
	if i < len(n.kvs) {
		return c.setKV(n, i)
	}
	if len(n.subs) > 0 {
		return c.setSub(n, 0)
	}
	return c.exhaust()
}

// Delete is part of database.Cursor.
func (c *cursor) Delete() error {
	if err := c.b.t.checkClosed(); err != nil {
		return err
	}
	if !c.valid {
		return dbErr(database.ErrIncompatibleValue, "cursor is exhausted")
	}
	if c.isSub {
		return dbErr(database.ErrIncompatibleValue, "buckets may not be deleted from a cursor")
	}
	if err := c.b.t.checkWritable("cursor delete"); err != nil {
		return err
	}
	n := c.b.t.resolve(c.b.path)
	if n == nil {
		return nil
	}
	if _, ok := n.findKV(c.name); !ok {
		return nil
	}
	n = c.b.t.mutable(c.b.path)
	i, _ := n.findKV(c.name)
	n.kvs = append(n.kvs[:i], n.kvs[i+1:]...)
	return nil
}

// Key is part of database.Cursor.
func (c *cursor) Key() []byte {
	if c.b.t.closed || !c.valid {
		return nil
	}
	return []byte(c.name)
}

// Value is part of database.Cursor.
func (c *cursor) Value() []byte {
	if c.b.t.closed || !c.valid || c.isSub {
		return nil
	}
	return c.val
}

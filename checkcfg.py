CHECKS = {
 "C99": dict(engine="smoke", race=False, level="exploration", rule="smoke", assumptions=[], quick=dict(runs=100, budget=20), thorough=dict(budget=30)),
}

_CHAINSIM_ASSUME = [
 "the reference world's blocks are valid or invalid by construction: generated spends are trivially satisfiable / correctly signed with the repo's signing helpers, or deliberately broken in exactly one way; script semantics are not re-implemented",
 "storage under the node is the in-memory stub memdb (commit log, prefix crashes) unless a run draws real ffldb; the producers of blocks and transactions are the harness",
 "one external event per quiescent point; the schedule explored is the order and timing of deliveries, restarts, flushes, clock moves and faults",
]
_CHAINSIM_RULE = ("one run = one seeded world (synthetic network parameters, block tree with forks, mutants violating exactly one rule or sitting exactly at a limit) "
 "delivered to a real node in a seeded order (in order, child-before-parent, duplicates) interleaved with restarts, cache flushes, clock advances and skewed time samples; "
 "non-trivial = at least one reorganisation or one invalid block judged (plus the property-specific condition); distinct = hash of the abstract event sequence "
 "(profile, delivered block classes, restart/flush kinds, reorg/invalid/restart counts, tree size class)")

CHECKS = {
 "C01": dict(engine="chainsim", race=False, level="exploration", rule=_CHAINSIM_RULE, assumptions=_CHAINSIM_ASSUME, cpus=2,
             quick=dict(runs=250, budget=60), thorough=dict(budget=900), det_runs=40),
 "C02": dict(engine="chainsim", race=False, level="exploration", rule=_CHAINSIM_RULE, assumptions=_CHAINSIM_ASSUME, cpus=2,
             quick=dict(runs=250, budget=60), thorough=dict(budget=900), det_runs=40),
 "C03": dict(engine="chainsim", race=False, level="exploration", rule=_CHAINSIM_RULE, assumptions=_CHAINSIM_ASSUME, cpus=2,
             quick=dict(runs=200, budget=60), thorough=dict(budget=900), det_runs=40),
 "C04": dict(engine="chainsim", race=False, level="fault_enumeration", cpus=2,
             rule=(_CHAINSIM_RULE + "; crash profile: after the sampled workload finished on the in-memory store with a commit log, EVERY prefix n of its K database commits is a crash point "
                   "(only the first n commits survive; stride sampling only when K>300), each followed by reopen + R1..R3, a seeded 40% additionally crash inside the recovery's own commits, "
                   "a seeded 25% (and always n=K) re-deliver the whole world and compare with the uninterrupted result (R4)"),
             assumptions=_CHAINSIM_ASSUME + ["crash granularity is the database commit (memdb): the store itself is assumed atomic and prefix-durable, which is property C05's subject; crashes inside ffldb's own commit protocol are exercised by storesim"],
             quick=dict(runs=40, budget=90), thorough=dict(budget=900), det_runs=30),
 "C19": dict(engine="v2sim", race=False, level="exploration",
             rule=("one run = one BIP324 session between two endpoints over a harness-owned byte stream: mode (M1 real<->real, M2 real<->reference endpoint bip324ref with the real side in either role, "
                   "M3rr adversary between two real peers, M3ref adversary / misbehaving reference against a real peer), network magic, garbage length per side (weighted to 0,1,15,16,17,4094,4095), "
                   "0-6 handshake decoys per side, 0-700 application packets per direction (classes 0-4 / 5-60 / 225-300 / 450-700; sizes 0..70000 and rarely 2^24-1; ~15% ignore flag), seeded delivery chunking "
                   "(1 byte .. whole buffer) and delays, and in M3 one fault (bit flip, multi-byte flip, range drop, range replay, swap of adjacent segments, truncate+close, injection incl. reflected packet, wrong AAD on send / on receive / "
                   "in the handshake, wrong garbage terminator) at a seeded place (key, garbage, terminator, handshake packet, application packet length/body/tag/whole packet, packet next to a rekey boundary, end of stream). "
                   "non-trivial = a handshake completed and (at least one rekey boundary was crossed or the victim consumed the first tampered byte); "
                   "distinct = hash of (mode, role and kind of each side, garbage class, packet-count class, decoy count class, reference key-encoding class, fault kind, fault position class, part of the stream where the tampering was consumed, rekey epochs reached per direction)"),
             assumptions=[
              "the byte stream is the stub simstream (reliable and ordered unless the adversary acts; writes never block); each endpoint has one reader goroutine, packets are sent from the driver goroutine, as btcd's peer does with separate in/out handlers",
              "the reference endpoint bip324ref is written from the BIP324 text on x/crypto chacha20/chacha20poly1305 and stdlib HKDF; secp256k1 point multiplication and the XSwiftEC map are the repository's own (btcec, btcec/ellswift) and are anchored by replaying the published BIP324 packet-encoding vectors at the start of every worker (failure = harness error)",
              "private key, session id of a real peer are read through reflection (observation only); keys and garbage of real peers come from crypto/rand seeded by testing/cryptotest",
              "one fault per run; after the first error returned by V2ReceivePacket the caller stops reading (as a real caller must disconnect)",
              "the v1-prefix downgrade path of RespondV2Handshake is not driven (not part of the statement as judged here)",
             ],
             cpus=2, quick=dict(runs=1200, budget=90), thorough=dict(budget=900), det_runs=30),
 "C99": dict(engine="smoke", race=False, level="exploration", rule="smoke", assumptions=[], quick=dict(runs=100, budget=20), thorough=dict(budget=30)),
}

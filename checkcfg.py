_CHAINSIM_ASSUME = [
 "the reference world's blocks are valid or invalid by construction: generated spends are trivially satisfiable / correctly signed with the repo's signing helpers, or deliberately broken in exactly one way; script semantics are not re-implemented",
 "storage under the node is the in-memory stub memdb (commit log, prefix crashes) unless a run draws real ffldb; the producers of blocks and transactions are the harness",
 "one external event per quiescent point; the schedule explored is the order and timing of deliveries, restarts, flushes, clock moves and faults",
]
_CHAINSIM_RULE = ("one run = one seeded world (synthetic network parameters, block tree with forks, mutants violating exactly one rule or sitting exactly at a limit) "
 "delivered to a real node in a seeded order (in order, child-before-parent, duplicates) interleaved with restarts, cache flushes, clock advances and skewed time samples; "
 "non-trivial = at least one reorganisation or one invalid block judged (plus the property-specific condition); distinct = hash of the abstract event sequence "
 "(profile, delivered block classes, restart/flush kinds, reorg/invalid/restart counts, tree size class)")

CHECKS = {
 "C01": dict(engine="chainsim", race=False, level="exploration", rule=_CHAINSIM_RULE, assumptions=_CHAINSIM_ASSUME, cpus=2,
             quick=dict(runs=250, budget=60), thorough=dict(budget=900), det_runs=40),
 "C02": dict(engine="chainsim", race=False, level="exploration", rule=_CHAINSIM_RULE, assumptions=_CHAINSIM_ASSUME, cpus=2,
             quick=dict(runs=250, budget=60), thorough=dict(budget=900), det_runs=40),
 "C03": dict(engine="chainsim", race=False, level="exploration", rule=_CHAINSIM_RULE, assumptions=_CHAINSIM_ASSUME, cpus=2,
             quick=dict(runs=200, budget=60), thorough=dict(budget=900), det_runs=40),
 "C04": dict(engine="chainsim", race=False, level="fault_enumeration", cpus=2,
             rule=(_CHAINSIM_RULE + "; crash profile: after the sampled workload finished on the in-memory store with a commit log, EVERY prefix n of its K database commits is a crash point "
                   "(only the first n commits survive; stride sampling only when K>300), each followed by reopen + R1..R3, a seeded 40% additionally crash inside the recovery's own commits, "
                   "a seeded 25% (and always n=K) re-deliver the whole world and compare with the uninterrupted result (R4)"),
             assumptions=_CHAINSIM_ASSUME + ["configuration (A), ~70% of the runs: crash granularity is the database commit on the memdb stub (the store is assumed atomic and prefix-durable, which is property C05's subject); configuration (B), ~30% of the runs: the node runs on real ffldb + real goleveldb over the simulated disk simfs and the disk crashes at a seeded I/O call inside a seeded block delivery (process crash: completed writes survive; power loss: per file durable content + seeded prefix of unsynced writes, block files arbitrary subsets and torn writes), one crash point per run, acknowledged = acknowledged before the last completed ffldb flush"],
             quick=dict(runs=40, budget=90), thorough=dict(budget=900), det_runs=30),
 "C18": dict(engine="peersim", race=True, level="exploration",
             rule=("one run = one real peer.Peer (inbound or outbound, seeded protocol version / services / AllowSelfConns / stall handler / trickle interval / network) on a harness-owned connection against a scripted remote "
                   "(clean handshake, refusal candidates: self connection, obsolete version, non-version first message, wrong magic, application/duplicate/malformed message before the verack; post-handshake violations; message soup; silent remote), "
                   "delivered in seeded chunks (whole messages, 1 byte, 1-16, 1-200 bytes) with simulated delays that straddle the negotiate/idle/stall/ping timers, bounded write buffer with a stalled remote, listeners that block for simulated time, "
                   "1-6 application goroutines issuing QueueMessage (unique payloads, buffered done channels) / QueueInventory / Disconnect before, during and after the handshake, one external event per quiescent point (event-stepped), "
                   "in yield mode a goroutine parked at one of 7 guarded yield sites inside the peer across later events, in burst mode several callers released from one gate; every run ends with a disconnect (Disconnect(), remote close/reset, timeout, protocol error) and 5 simulated minutes of grace. "
                   "non-trivial = (handshake completed and at least one message queued and a disconnect happened) or a refusal case was judged; "
                   "distinct = hash of (direction, caller count, chunk mode, yield/burst mode, script shape, refusal reason, disconnect cause, handshake completed, model phase, fault kinds that fired)"),
             assumptions=[
              "the remote endpoint is a byte script built with the harness's own 24-byte-header framing (version payloads are encoded with wire.MsgVersion.BtcEncode); what the peer writes is split and judged with the harness's own parser and encoders",
              "the connection is the stub simconn (buffered duplex, *net.TCPAddr addresses, harness-decided chunking, optional bounded write buffer, close wakes blocked calls); deadlines are not modelled (peer does not use them)",
              "'queued before the disconnect' is judged by logical stamps taken by the calling goroutines: a QueueMessage call counts only if it returned before Disconnect was invoked, or before the event step in which the harness first saw the peer disconnecting",
              "handshake classification is the harness's own model; ambiguous remotes (unknown command with bad checksum, sendaddrv2 below protocol 70016, OnVersion rejecting, negative protocol versions are not generated) are not judged for refusal or liveness",
              "burst steps (caller order decided by the runtime) are not replayable and are switched off in the determinism self-test, as are two ties: block inventory queued before the handshake completes, and input backlogs built while the peer is not reading",
              "the v2 (BIP324) transport of peer is not used (UsingV2Conn=false); that is C19's subject",
             ],
             cpus=2, quick=dict(runs=1500, budget=60), thorough=dict(budget=900), det_runs=60),
 "C09": dict(engine="chainsim", race=False, level="exploration", cpus=2,
             rule=(_CHAINSIM_RULE + "; retarget profile: synthetic difficulty parameters (retarget interval 3-12 blocks, factor 2-4, min-difficulty rule, BIP94, no-retarget, lowered pow limits, "
                   "subsidy intervals 1-150), timestamps steered to the clamps / min-difficulty / BIP94 / MTP edges, headers and blocks delivered under an advancing, skewed clock"),
             assumptions=_CHAINSIM_ASSUME + ["decides the header-history x parameter-set x clock facet of C09; the clauses quantified over every isolated 32-bit compact value / 256-bit target are reached only for values occurring in generated histories and mutated headers"],
             quick=dict(runs=200, budget=60), thorough=dict(budget=900), det_runs=30),
 "C10": dict(engine="chainsim", race=False, level="exploration", cpus=2,
             rule=(_CHAINSIM_RULE + "; pool profile: a real mempool + the real netsync block connect/disconnect handler + a real block template generator on the node; seeded transaction graphs (fresh spends, chains on pooled outputs, "
                   "conflicts with and without replace-by-fee signalling at higher/lower fees, orphans submitted before their parents, free and below-minimum fees, lock times at the finality boundary) through ProcessTransaction / "
                   "MaybeAcceptTransaction / CheckMempoolAcceptance / RemoveTransaction / RemoveDoubleSpends / RemoveOrphan(sByTag) / ProcessOrphans, interleaved with blocks mined from the pool by the harness, foreign blocks, reorganisations, "
                   "restarts, clock advances; seeded relay/orphan/replacement/mining policies; whole-pool invariants after every step"),
             assumptions=_CHAINSIM_ASSUME + ["operation-level interleavings are explored sequentially (every public mempool operation holds the pool mutex for its whole duration); concurrent callers run in the poolrace worker group (K goroutines released together, binary built with the race detector): its interleavings are chosen by the Go runtime and are not replayable, race reports are reduced to the pair of conflicting call sites"],
             also=[dict(tag="poolrace", race=True, workers=4, cpus=8, env={"VERIF_CHAINSIM_MODE": "poolrace"},
                        quick=dict(runs=25, budget=60), thorough=dict(runs=1000000, budget=300))],
             quick=dict(runs=150, budget=75), thorough=dict(budget=900), det_runs=30),
 "C12": dict(engine="chainsim", race=False, level="exploration", cpus=2,
             rule=(_CHAINSIM_RULE + "; pool profile with template emphasis: NewBlockTemplate on reachable pool states, tips (incl. right after reorganisations and restarts) and seeded mining policies (min/max weight and size, priority area, minimum fee), "
                   "pay-to address set or not; every template is checked clause by clause, then time / extra nonce are updated at a later clock value, the block is solved and fed back through ProcessBlock"),
             assumptions=_CHAINSIM_ASSUME + ["signature-operation costs are recomputed by definition for the script shapes the world generates (P2PKH, P2WPKH, P2SH(OP_TRUE), bare OP_TRUE, OP_RETURN)"],
             quick=dict(runs=150, budget=75), thorough=dict(budget=900), det_runs=30),
 "C14": dict(engine="chainsim", race=False, level="exploration", cpus=2,
             rule=(_CHAINSIM_RULE + "; votes profile: six seeded BIP9 deployment definitions per run (window 3-10, threshold 1..window, start/timeout by median time incl. past starts, speedy mode with custom threshold and/or "
                   "minimum activation height, always-active height), block versions voting each bit with probability threshold/window (windows end at threshold-1 and threshold), wrong top bits, forks with different vote histories; "
                   "state queried at the tip after deliveries and restarts and, through a read-only hook, at arbitrary blocks of any branch in seeded order"),
             assumptions=_CHAINSIM_ASSUME + ["only well-formed definitions (start < timeout) are generated; rule gating is observed through block verdicts of CSV/segwit-dependent mutants on both sides of the activation"],
             quick=dict(runs=120, budget=60), thorough=dict(budget=900), det_runs=30),
 "C17": dict(engine="chainsim", race=False, level="exploration", cpus=2,
             rule=(_CHAINSIM_RULE + "; headers profile: interleaved header and block deliveries of the same tree (headers only, headers then blocks, blocks only, orphan headers, headers of invalid blocks), "
                   "with batches of index queries (locators, locate blocks/headers with empty / genuine / side-chain / unknown locators and stop hashes, height ranges, interval hashes, best-header views) "
                   "compared with naive parent-link walks"),
             assumptions=_CHAINSIM_ASSUME + ["query arguments for which the API states no contract (interval 0, max 0) are not generated; best-header is judged for headers accepted through header delivery within one node instance"],
             quick=dict(runs=150, budget=60), thorough=dict(budget=900), det_runs=30),
 "C19": dict(engine="v2sim", race=False, level="exploration",
             rule=("one run = one BIP324 session between two endpoints over a harness-owned byte stream: mode (M1 real<->real, M2 real<->reference endpoint bip324ref with the real side in either role, "
                   "M3rr adversary between two real peers, M3ref adversary / misbehaving reference against a real peer), network magic, garbage length per side (weighted to 0,1,15,16,17,4094,4095), "
                   "0-6 handshake decoys per side, 0-700 application packets per direction (classes 0-4 / 5-60 / 225-300 / 450-700; sizes 0..70000 and rarely 2^24-1; ~15% ignore flag), seeded delivery chunking "
                   "(1 byte .. whole buffer) and delays, and in M3 one fault (bit flip, multi-byte flip, range drop, range replay, swap of adjacent segments, truncate+close, injection incl. reflected packet, wrong AAD on send / on receive / "
                   "in the handshake, wrong garbage terminator) at a seeded place (key, garbage, terminator, handshake packet, application packet length/body/tag/whole packet, packet next to a rekey boundary, end of stream). "
                   "non-trivial = a handshake completed and (at least one rekey boundary was crossed or the victim consumed the first tampered byte); "
                   "distinct = hash of (mode, role and kind of each side, garbage class, packet-count class, decoy count class, reference key-encoding class, fault kind, fault position class, part of the stream where the tampering was consumed, rekey epochs reached per direction)"),
             assumptions=[
              "the byte stream is the stub simstream (reliable and ordered unless the adversary acts; writes never block); each endpoint has one reader goroutine, packets are sent from the driver goroutine, as btcd's peer does with separate in/out handlers",
              "the reference endpoint bip324ref is written from the BIP324 text on x/crypto chacha20/chacha20poly1305 and stdlib HKDF; secp256k1 point multiplication and the XSwiftEC map are the repository's own (btcec, btcec/ellswift) and are anchored by replaying the published BIP324 packet-encoding vectors at the start of every worker (failure = harness error)",
              "private key, session id of a real peer are read through reflection (observation only); keys and garbage of real peers come from crypto/rand seeded by testing/cryptotest",
              "one fault per run; after the first error returned by V2ReceivePacket the caller stops reading (as a real caller must disconnect)",
              "the v1-prefix downgrade path of RespondV2Handshake is not driven (not part of the statement as judged here)",
             ],
             cpus=2, quick=dict(runs=1200, budget=90), thorough=dict(budget=900), det_runs=30),
 "C05": dict(engine="storesim", race=False, level="fault_enumeration", cpus=1,
             rule=("one run = one seeded workload (5-60 operations: managed Update/View and manual Begin/Commit/Rollback; Put/Get/Delete, CreateBucket(IfNotExists)/DeleteBucket/Bucket nested 3 deep, ForEach/ForEachBucket, "
                   "cursor scripts incl. Delete while iterating over pending+cached+on-disk keys; StoreBlock/HasBlock(s)/FetchBlock(s)/FetchBlockHeader(s)/FetchBlockRegion(s) incl. pending blocks and out-of-range regions; "
                   "PruneBlocks/BeenPruned; Close+Open; clock advances across the flush interval; seeded cache size 'flush every commit'..'never', flush interval, block-file limit 'one block per file'..1 MiB) executed on the real ffldb "
                   "(real goleveldb, background compaction off) on a simulated disk in lock-step with an in-memory model, in one of five separate batches: refine (fault-free, every result compared op by op, then the final state live and after Close+Open); "
                   "ioerr (the same workload re-executed once per I/O call index k with call k failing: write / short write / sync / read / open / remove / leveldb-storage error; complete enumeration when the workload makes <= 60 I/O calls (400 thorough), seeded stride subset otherwise); "
                   "crash_process and crash_powerloss (re-executed once per I/O index with the disk frozen at that call, post-crash disk built, 20% with a second crash while reopening); isolation (one writer, 1-3 readers holding View/Begin(false) snapshots, "
                   "turn-based replayable interleaving, porcupine). non-trivial = at least one committed write transaction and, in the fault batches, at least one fault fired; "
                   "distinct = hash of (batch, knob classes, per transaction: writable/managed/end kind + set of operation kinds, reopen/advance steps, fault kinds that fired)"),
             assumptions=[
              "the disk is the stub simfs: per file durable content as of the last successful Sync plus the ordered unsynced writes/truncates; directory operations (create, remove, rename, leveldb CURRENT pointer) are durable at once; power loss keeps per file a seeded prefix of its unsynced operations (block files: also an arbitrary subset or a torn write); process crash keeps every completed write",
              "goleveldb runs for real on a harness storage.Storage with its background table compaction switched off through its own options (CompactionL0Trigger/WriteL0*Trigger huge, DisableSeeksCompaction) and WriteBuffer lowered to 64 KiB; ffldb's own leveldb options are untouched; reached through add-only hooks in database/ffldb guarded by the build tag verif",
              "the reference model modeldb is written from database/interface.go: nested ordered maps, snapshot readers, single writer, commit log; block files are emulated as arithmetic only (record = block + 12 bytes, roll-over, PruneBlocks accounting as in ffldb)",
              "not judged because the interface is silent or the store deviates only from its documentation, not from the statement: relative order of keys and nested buckets in a cursor (names are generated so that both readings agree), Seek/Next continuing from the keys into nested buckets, Delete/Put with a key equal to a bucket name, Delete with an empty key, Cursor.Delete in a read-only transaction, BeenPruned with a single remaining file, error codes under injected faults",
              "under an injected I/O error the failing operation may return an error, nil or a shortened iteration (ffldb swallows leveldb read errors) but never wrong bytes; a fault inside an operation of a write transaction makes the harness roll that transaction back; a store that refuses service or hangs after a fault (goleveldb never releases its writer lock when the memdb flush inside OpenTransaction fails) is abandoned and the process restarted, after which the state must be a prefix of the committed transactions not shorter than the last completed flush",
              "ENOSPC is never injected (ffldb answers it with os.Exit); disk-full is represented by the crash at the same I/O point",
              "isolation interleavings are at the granularity of the actors' own steps (Begin, each read-all, each group of Puts, Commit); there are no yield points inside ffldb",
             ],
             quick=dict(runs=300, budget=110), thorough=dict(budget=900), det_runs=30, det_budget=150),
 "C99": dict(engine="smoke", race=False, level="exploration", rule="smoke", assumptions=[], quick=dict(runs=100, budget=20), thorough=dict(budget=30)),
}

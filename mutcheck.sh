#!/bin/bash
# Evaluates one seeded change WITHOUT touching /repo: a scratch worktree of
# /repo gets the patch, a scratch copy of the harness is pointed at it
# (go.mod replaces), the quick tier of the given checks runs there, and both
# are removed.  Prints what seedcheck.sh prints.
# usage: mutcheck.sh <patch.diff> <prop> [<prop>...]     (VERIF_TIER, VERIF_SEED honoured)
set -u
patch=$(readlink -f "$1"); shift
tier=${VERIF_TIER:-quick}
root=$(mktemp -d /tmp/mut-XXXXXX)
trap 'git -C /repo worktree remove --force "$root/repo" 2>/dev/null; rm -rf "$root"' EXIT
git -C /repo worktree add --detach -q "$root/repo" HEAD || exit 2
if ! git -C "$root/repo" apply "$patch"; then echo "MUTCHECK: patch does not apply: $patch"; exit 2; fi
mkdir -p "$root/verif"
rsync -a --exclude .work --exclude replays --exclude seeded --exclude .git --exclude evidence /verif/ "$root/verif/"
sed -i "s#=> /repo#=> $root/repo#" "$root/verif/harness/go.mod"
mkdir -p "$root/verif/.work"
# share the build cache (read-mostly) to avoid rebuilding the world
ln -s /verif/.work/gocache "$root/verif/.work/gocache" 2>/dev/null
cd "$root/verif"
for p in "$@"; do
  out=$(VERIF_REPO_DIR="$root/repo" ./check "$p" "$tier" 2>&1); rc=$?
  echo "MUTCHECK: property=$p tier=$tier rc=$rc"
  echo "$out" | grep -E "^check |VIOLATION|oracle=|HARNESS-ERROR|^  " | head -10 | cut -c1-400
done

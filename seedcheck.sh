#!/bin/bash
# Applies one seeded change to /repo, runs the given checks (quick tier), and
# reverts the change again (git apply -R, so other uncommitted work in /repo is
# left alone).  usage: seedcheck.sh <patch.diff> <prop> [<prop>...]
# Environment: VERIF_TIER=quick|thorough (default quick), VERIF_BUDGET_S.
set -u
patch=$1; shift
tier=${VERIF_TIER:-quick}
cd /repo || exit 2
if ! git apply --check "$patch" 2>/dev/null; then
  echo "SEEDCHECK: patch does not apply: $patch"; exit 2
fi
git apply "$patch" || exit 2
trap 'cd /repo && git apply -R "'"$patch"'" && echo "SEEDCHECK: reverted"' EXIT
cd /verif
for p in "$@"; do
  out=$(./check "$p" "$tier" 2>&1); rc=$?
  echo "SEEDCHECK: property=$p tier=$tier rc=$rc"
  echo "$out" | grep -E "^check |VIOLATION|oracle=|HARNESS-ERROR" | head -8 | cut -c1-400
done
